#!/venv/bin/python
"""Self-tests of the reference models and oracles on hand-written examples (none of them calls kernpy). Run by MANIFEST.setup_cmd."""
import os
import sys

sys.path.insert(0, os.path.dirname(os.path.dirname(os.path.abspath(__file__))))
from kv import alphabet as A
from kv import catref
from kv import explore as X
from kv import pitchref as R
from kv.model import Model, ref_rows, compare_export, NULL


def test_catref():
    assert len(catref.ALL) == 37
    assert catref.DESC['NOTE_REST'] == {'NOTE_REST', 'DURATION', 'NOTE', 'PITCH', 'DECORATION', 'ALTERATION', 'REST'}
    assert catref.selected(['CORE'], ['NOTE']) == catref.DESC['CORE'] - catref.DESC['NOTE']
    assert catref.selected(None, ['COMMENTS']) == catref.ALL - {'COMMENTS', 'FIELD_COMMENTS', 'LINE_COMMENTS'}
    txt = ".\n├── A\n│   ├── B\n│   └── C\n└── D"
    assert catref.parse_tree_text(txt) == {'A': {'B': {}, 'C': {}}, 'D': {}}


def test_pitchref():
    assert R.transpose(('C', 0, 4), 'M3', 'up') == ('E', 0, 4)
    assert R.transpose(('B', 0, 3), 'm2', 'up') == ('C', 0, 4)
    assert R.transpose(('E', -1, 4), 'M2', 'up') == ('F', 0, 4)
    assert R.transpose(('C', 0, 4), 'd1', 'down') == ('C', 1, 4)
    assert R.transpose(('F', 0, 4), 'dd5', 'up') == ('C', -2, 5)
    assert R.transpose(R.transpose(('G', 2, 2), 'AA4', 'up'), 'AA4', 'down') == ('G', 2, 2)
    assert R.spell('C', 1, 5) == 'cc#' and R.spell('B', -2, 2) == 'BB--' and R.parse('CCC-') == ('C', -1, 1)
    assert R.interval('octave') == (7, 12) and R.interval('P5') == (4, 7) and R.interval('dd2') == (1, -1)
    assert len(set(R.INTERVAL_NAMES)) == 40
    assert R.agnostic('G', 2, 'G', 2) == 'e' and R.agnostic('C', 4, 'E', 4) == 'c' and R.agnostic('F', 3, 'G', 2) == 'dd'


def test_spine_model():
    m = Model(['**kern', '**kern'])
    m.add([A.SPLIT, A.NULL_I])
    assert m.spines() == [0, 0, 1]
    cells = m.add([A.SPLIT, A.NULL_I, A.SPLIT])
    assert m.spines() == [0, 0, 0, 1, 1]
    # two join groups of different spines that touch: they do not merge with each other
    m.add([A.NULL_I, A.JOIN, A.JOIN, A.JOIN, A.JOIN])
    assert m.spines() == [0, 0, 1]
    row = m.crows()[-1]
    assert row[1].children == [] and row[2].children == []            # nothing hangs from them yet
    nxt = m.add([A.NULL_D, A.NULL_D, A.NULL_D])
    assert nxt[1].parent is row[1] and nxt[2].parent is row[3]         # each merged path continues from the FIRST cell of its own group
    assert row[2].children == [] and row[4].children == []             # the other join cells are leaves
    m.add([A.TERM, A.NULL_I, A.NULL_I])
    assert m.spines() == [0, 1]
    m.close()
    assert m.width() == 0
    order = [e for e, _ in m.dfs_order()]
    assert order[0] == '**kern' and order.count('*v') == 4 and order.count('*-') == 3
    # mid-score global comments are listed after all spines
    m2 = Model(['**kern'], pre=('!!!COM: x',))
    m2.add([A.note('4', 'c')])
    m2.add_g('!!mid')
    m2.add([A.note('4', 'd')])
    m2.close()
    assert [e for e, _ in m2.dfs_order()] == ['!!!COM: x', '**kern', '4c', '4d', '*-', '!!mid']
    assert m2.text() == '!!!COM: x\n**kern\n4c\n!!mid\n4d\n*-\n'


def test_context():
    m = X.seq_model(['**kern', '**kern'], ['k', 'd', 'S0', 'C', 'd', 'J0', 'd'], 0)
    ctx = m.context()
    rows = m.crows()
    first_clefs = [c.src for c in rows[1]]
    changed = rows[4][0].src                   # the clef given to the first sub-spine only
    d_after_split = rows[5]
    assert ctx[id(d_after_split[0])]['clef'] == changed and ctx[id(d_after_split[1])]['clef'] == first_clefs[0]
    d_after_join = rows[7]
    assert ctx[id(d_after_join[0])]['clef'] == changed      # the merged path inherits from the first cell of its group
    assert ctx[id(d_after_join[1])]['clef'] == first_clefs[1]


def test_reference_exporter():
    m = Model(['**kern', '**text'])
    m.add([A.V('*clefG2', 'CLEF'), A.NULL_I])
    m.add([A.V('=1', 'BARLINES', '='), A.V('=1', 'BARLINES', '=')])
    m.add([A.note('8.', 'ee', '-', ['J', ';'], src='8.ee-J;'), A.text_cell('la', '**text')])
    m.add([A.CH(A.note('4', 'c', '', ['L']), A.note('4', 'e')), A.NULL_D])
    m.add([A.NULL_D, A.NULL_D])
    m.close()
    full = '**ekern\t**etext\n*clefG2\t*\n=\t=\n8@.@ee@-·;·J\tla\n4@c·L 4@e·L\t.\n*-\t*-\n'
    assert compare_export(m, full, 'ekern') == []
    assert compare_export(m, full.replace('·;', ''), 'ekern')[0][0] == 'note-signifiers'
    assert compare_export(m, full.replace('la', 'lu'), 'ekern')[0][0] == 'verbatim'
    assert compare_export(m, full.replace('4@c·L 4@e·L', '4@c·L'), 'ekern')[0][0] == 'chord-note-count'
    assert compare_export(m, full.replace('=\t=\n', ''), 'ekern')[0][0] in ('verbatim', 'cell-count', 'row-missing')
    kern = '**kern\t**text\n*clefG2\t*\n=\t=\n8.ee-;J\tla\n4cL 4eL\t.\n*-\t*-\n'
    assert compare_export(m, kern, 'kern') == []
    # T_cat: only pitches and headers
    S = catref.selected(['PITCH', 'HEADER', 'CHORD'], None)
    assert compare_export(m, '**ekern\t**etext\nee\t.\nc e\t.\n', 'ekern', None, S) == []
    # T_spine and T_cat commute (ref_rows applies both; the order of application cannot matter because each works cell by cell)
    a = [[x for x in r['exp']] for r in ref_rows(m, {0}, S)]
    b = [[e for e, c in zip(r['exp'], r['cells']) if c.spine == 0] for r in ref_rows(m, None, S)]
    assert a == [r for r in b if any(x != NULL for x in r)]


def test_acceptor():
    from kv.props import c08
    ok = [['**kern', '**kern'], ['*clefG2', '*clefF4'], ['*^', '*'], ['4c', '4e', '4C'], ['*v', '*v', '*'], ['=', '='], ['*-', '*-']]
    ctx = c08.contexts(ok)
    assert ctx == [('4c', ('*clefG2', None, None)), ('4e', ('*clefG2', None, None)), ('4C', ('*clefF4', None, None))]
    for bad, msg in (([['**kern'], ['4c', '4d'], ['*-']], 'cell-count'), ([['4c'], ['*-']], 'no-header'), ([['**kern'], ['4c']], 'spine-not-terminated'),
                     ([['**kern'], ['*v'], ['*-']], 'join-of-a-single-path'), ([['**kern'], ['*-'], ['4c']], 'row-after')):
        try:
            c08.contexts(bad)
            raise AssertionError(f'accepted {bad}')
        except ValueError as e:
            assert msg in str(e), (msg, str(e))
    assert c08.model_measures([['**kern'], ['*clefG2'], ['4c'], ['=1'], ['4d'], ['=2'], ['*-']]) == [2, 3, 5]
    assert c08.model_measures([['**kern'], ['=1'], ['4d'], ['*-']]) == [1]


def test_recogniser():
    from kv.props import c18
    assert c18.classify('=1') == 'BARLINES' and c18.classify('=:|!|:') == 'BARLINES' and c18.classify('=foo') is None
    assert c18.classify('*clefG2') == 'CLEF' and c18.classify('*clefG2x') is None and c18.classify('*') == 'EMPTY'
    assert c18.classify('*k[f#c#]') == 'KEY_SIGNATURE' and c18.classify('*M3+2/8') == 'TIME_SIGNATURE' and c18.classify('*M(C|)') == 'METER_SYMBOL'
    assert c18.barline_export('=12:|!|:;') == '=:|!|:;' and c18.barline_export('==') == '==' and c18.barline_export('=7') == '='


def test_tlc_graph():
    """tla/SpinePaths.tla explored by TLC: the dump parses, the graph is closed and every state has a witness (skipped, loudly, if TLC cannot run)"""
    from kv import tlcspine
    try:
        states, edges, init, stats = tlcspine.tlc_graph(1, 3)
    except RuntimeError as e:
        print('selftest: TLC not usable here, C02 pass (d) will be skipped:', str(e)[:200])
        return
    assert states[init] == (('h',), (0,), (1,)), states[init]
    assert len(states) == stats['tlc_distinct_states'] and all(u in states and v in states for u, v in edges)
    path = tlcspine.witnesses(states, edges, init)
    assert len(path) == len(states)
    rows = {s[0] for s in states.values()}
    assert ('s',) in rows and ('j', 'j') in rows and ('j', 'j', 'j') in rows and ('n', 'j', 'j') in rows and ('j',) not in rows and ('s', 's', 's') not in rows
    by = {(s[0], s[1]): s[2] for s in states.values()}
    assert by[(('s', 'n'), (0, 0, 0))] == (1, 1, 2) and by[(('j', 'j', 't'), (0,))] == (1,) and by[(('t', 'j', 'j'), (0,))] == (2,)


def test_alphabet():
    assert A.dur_parts('8.') == ['8', '.'] and A.dur_parts('16%3') == ['16%3'] and A.dur_parts('8qq') == ['8', 'qq'] and A.dur_parts('2..') == ['2', '.', '.']
    assert A.dur_parts('8.q') == ['8', '.', 'q'] and A.dur_parts('') == []
    import math
    assert math.gcd(len(A.KDATA), 3) == 1 and math.gcd(len(A.KINT), 7) == 1      # palette strides reach every member
    srcs = [s['src'] for s in A.KDATA]
    assert len(srcs) == len(set(srcs))
    assert all('@' not in s and '·' not in s for s in srcs + A.TEXT)


if __name__ == '__main__':
    n = 0
    for k, f in list(globals().items()):
        if k.startswith('test_') and callable(f):
            f()
            n += 1
    print(f'selftest ok ({n} groups)')
