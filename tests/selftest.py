#!/venv/bin/python
"""Self-tests of the reference models (no kernpy needed for most of them). Run by MANIFEST.setup_cmd."""
import os, sys
sys.path.insert(0, os.path.dirname(os.path.dirname(os.path.abspath(__file__))))
from kv import catref

def test_catref():
    assert len(catref.ALL) == 37
    assert catref.DESC['NOTE_REST'] == {'NOTE_REST', 'DURATION', 'NOTE', 'PITCH', 'DECORATION', 'ALTERATION', 'REST'}
    assert catref.selected(['CORE'], ['NOTE']) == catref.DESC['CORE'] - catref.DESC['NOTE']
    txt = ".\n├── A\n│   ├── B\n│   └── C\n└── D"
    assert catref.parse_tree_text(txt) == {'A': {'B': {}, 'C': {}}, 'D': {}}

if __name__ == '__main__':
    n = 0
    for mod in list(sys.modules.values()):
        pass
    g = dict(globals())
    for k, f in g.items():
        if k.startswith('test_') and callable(f):
            f(); n += 1
    print(f'selftest ok ({n} groups)')
