------------------------------ MODULE SpinePaths ------------------------------
(* The Humdrum spine-path rules as a transition system, independent of kernpy and of kv/model.py.
   A state is what the NEXT row is interpreted against: the live spine paths (column order, each with the 0-based id of the
   spine it belongs to), the row that produced them (one cell kind per column of the previous layout) and, for every live
   path, the column of that row whose cell it hangs from.  TLC explores the system to closure under a column cap and
   dumps the labelled state graph; kv/props/c02.py replays EVERY edge of that graph against kernpy (import of a witness
   history followed by the edge's row and a probe row) and compares parents, spine ids and row widths.               *)
EXTENDS Naturals, Sequences

CONSTANTS NSpines, MaxCols

VARIABLES layout, row, parent

vars == <<layout, row, parent>>

Init == /\ layout = [i \in 1..NSpines |-> i - 1]
        /\ row    = [i \in 1..NSpines |-> "h"]
        /\ parent = [i \in 1..NSpines |-> i]

SameSpineJoin(ops, i, k) == k >= 1 /\ k <= Len(layout) /\ ops[k] = "j" /\ layout[k] = layout[i]

\* a join cell needs an adjacent join cell of the same spine (runs of different spines never merge)
LegalJoin(ops, i) == ops[i] = "j" => (SameSpineJoin(ops, i, i - 1) \/ SameSpineJoin(ops, i, i + 1))

FirstOfRun(ops, i) == ops[i] = "j" /\ ~SameSpineJoin(ops, i, i - 1)

\* how many paths continue below column i
Out(ops, i) == IF ops[i] = "s" THEN 2
               ELSE IF ops[i] = "t" THEN 0
               ELSE IF ops[i] = "j" /\ ~FirstOfRun(ops, i) THEN 0
               ELSE 1

RECURSIVE Below(_, _)
Below(ops, i) == IF i > Len(layout) THEN <<>>
                 ELSE [k \in 1..Out(ops, i) |-> i] \o Below(ops, i + 1)

Plain(kind) == /\ Len(layout) > 0
               /\ row'    = [i \in 1..Len(layout) |-> kind]
               /\ parent' = [i \in 1..Len(layout) |-> i]
               /\ UNCHANGED layout

DataRow == Plain("d")        \* data, barline and field-comment rows: one child per cell
NullRow == Plain("n")        \* a row of null interpretations

OpRow == /\ Len(layout) > 0
         /\ \E ops \in [1..Len(layout) -> {"n", "s", "j", "t"}] :
              /\ \E i \in 1..Len(layout) : ops[i] # "n"
              /\ \A i \in 1..Len(layout) : LegalJoin(ops, i)
              /\ Len(Below(ops, 1)) <= MaxCols
              /\ row'    = ops
              /\ parent' = Below(ops, 1)
              /\ layout' = [k \in 1..Len(Below(ops, 1)) |-> layout[Below(ops, 1)[k]]]

Next == DataRow \/ NullRow \/ OpRow

Spec == Init /\ [][Next]_vars

\* model-level invariants (checked by TLC on every reachable state)
TypeOK == /\ Len(layout) <= MaxCols
          /\ Len(parent) = Len(layout)
          /\ \A k \in 1..Len(layout) : layout[k] \in 0..(NSpines - 1) /\ parent[k] \in 1..Len(row)

\* the columns of one spine stay together and spines keep their order; paths never cross
Ordered == \A a, b \in 1..Len(layout) : a < b => (layout[a] <= layout[b] /\ parent[a] <= parent[b])
=============================================================================
