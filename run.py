#!/venv/bin/python
"""Driver:  run.py check Cxx [--tier quick|thorough] [--replay file] [--no-confirm]

exit 0  property held on everything explored (only KNOWN-FINDING lines, if any)
exit 1  at least one unlisted violation; prints  VIOLATION property=<id> replay=<path>
exit 2  harness fault (kernpy not importable from KERNPY_SRC, divergent replay, worker crash)
"""
import argparse
import importlib
import json
import os
import subprocess
import sys

HERE = os.path.dirname(os.path.abspath(__file__))


def _reexec_if_needed():
    env = os.environ
    want = {'PYTHONHASHSEED': env.get('VERIF_HASHSEED', '0'), 'PYTHONUTF8': '1'}
    if any(env.get(k) != v for k, v in want.items()):
        env2 = dict(env)
        env2.update(want)
        env2['PYTHONDONTWRITEBYTECODE'] = '1'
        os.execve(sys.executable, [sys.executable] + sys.argv, env2)


def main():
    _reexec_if_needed()
    ap = argparse.ArgumentParser()
    ap.add_argument('cmd', choices=['check'])
    ap.add_argument('prop')
    ap.add_argument('--tier', default=os.environ.get('VERIF_TIER') or 'quick', choices=['quick', 'thorough'])
    ap.add_argument('--replay')
    ap.add_argument('--no-confirm', action='store_true')
    ap.add_argument('--quiet', action='store_true')
    args = ap.parse_args()
    prop = args.prop.upper()
    seed = int(os.environ.get('VERIF_SEED', '0') or 0)

    src = os.path.abspath(os.environ.get('KERNPY_SRC', '/repo'))
    sys.path.insert(0, src)
    sys.path.insert(0, HERE)
    import warnings
    warnings.simplefilter('ignore')
    try:
        import kernpy
    except Exception as e:  # pragma: no cover
        print(f'HARNESS-ERROR: cannot import kernpy from {src}: {e!r}')
        sys.exit(2)
    if not os.path.abspath(kernpy.__file__).startswith(src + os.sep):
        print(f'HARNESS-ERROR: kernpy imported from {kernpy.__file__}, expected under {src}')
        sys.exit(2)

    # evidence and replay files of runs against another tree (mutants, seeded changes) never touch /verif/evidence
    out_dir = os.environ.get('VERIF_OUT_DIR') or (HERE if src == '/repo' else os.path.join(os.path.dirname(src), 'verif_out'))
    os.environ['VERIF_TIER'] = args.tier        # read by kv.core (job watchdog)
    from kv import core
    mod = importlib.import_module(f'kv.props.{prop.lower()}')
    findings, fixed = core.load_known()
    findings = [f for f in findings if f['property'] == prop]

    if args.replay:
        case = json.load(open(args.replay, encoding='utf-8'))
        try:
            viols = mod.replay(case['case'])
        except Exception as e:  # noqa  (a case recorded by the generic exception guard has no driver-specific replay)
            viols = []
            if not args.quiet:
                print(f'case replay not possible ({type(e).__name__}); falling back to the recorded job')
        unlisted = [v for v in viols if not _listed(v, findings)]
        if not unlisted and case.get('job_fn') and hasattr(mod, case['job_fn']):
            # not reproducible from the single case: re-run the whole job that produced it (the failure may depend on what the same process did before)
            d = core._guard_inner(getattr(mod, case['job_fn']), core.revive(case['job']))
            d = d.get('acc', d) if isinstance(d, dict) and 'viol' not in d else d
            again = [v for v in d.get('viol', []) if (v['cls'], v['symptom']) == (case['cls'], case['symptom'])]
            keys = {tuple(k) for k, _ in d.get('vkeys', [])}
            if again or (case['cls'], case['symptom']) in keys:
                viols = again or [{'cls': case['cls'], 'symptom': case['symptom']}]
                unlisted = [v for v in viols if not _listed(v, findings)]
                print('reproduced by re-running the whole job (the failure depends on earlier calls in the same process)')
        if not args.quiet:
            for v in viols:
                print(f"replayed: class={v['cls']} symptom={v['symptom']} listed={_listed(v, findings)}")
        if unlisted:
            print(f'VIOLATION property={prop} replay={args.replay}')
            sys.exit(1)
        print(f'replay of {args.replay}: no unlisted violation')
        sys.exit(0)

    ctx = core.Ctx(prop, args.tier, seed)
    try:
        mod.run(ctx)
    except Exception:
        # same rule as for worker jobs (core._guard_inner): an exception raised inside the library is an observation, anything else a harness crash
        d = core._guard_inner(lambda _job: (_ for _ in ()).throw(sys.exc_info()[1]), 'whole-run')
        ctx.merge(d)

    if ctx.n.get('harness_errors'):
        for c in ctx.caps:
            if c.startswith('HARNESS-ERROR'):
                print(c)
        print(f'HARNESS-ERROR: {ctx.n["harness_errors"]} worker job(s) crashed; no verdict')
        sys.exit(2)

    # classify
    known_seen = {}
    unlisted_keys = {}
    for k, c in ctx.vkeys.items():
        f = _find(k[0], k[1], findings)
        if f is not None:
            known_seen[(f['cls'], f['symptom'])] = (f, known_seen.get((f['cls'], f['symptom']), (f, 0))[1] + c)
        else:
            unlisted_keys[k] = c
    stale = [f for f in findings if (f['cls'], f['symptom']) not in known_seen]

    replay_paths = []
    if unlisted_keys:
        os.makedirs(os.path.join(out_dir, 'replays'), exist_ok=True)
        for v in ctx.viol:
            k = (v['cls'], v['symptom'])
            if k not in unlisted_keys:
                continue
            rec = {'property': prop, 'tier': args.tier, 'seed': seed, **v}
            path = os.path.join(out_dir, 'replays', f"{prop}-{core.digest(rec['case'])}.json")
            with open(path, 'w', encoding='utf-8') as f:
                json.dump(rec, f, indent=1, ensure_ascii=False, default=repr)
            replay_paths.append((k, path))
        # confirm in a fresh process: for every (class, symptom) at least one recorded example must reproduce (from the case alone, or by
        # re-running the job that produced it).  Examples that do not reproduce are dropped; if nothing reproduces the run is a harness fault.
        if not args.no_confirm:
            confirmed, unconfirmed = [], []
            done_keys = set()
            budget = 8
            for k, path in replay_paths:
                if k in done_keys or budget <= 0:
                    continue
                budget -= 1
                r = subprocess.run([sys.executable, os.path.abspath(__file__), 'check', prop, '--replay', path, '--quiet'],
                                   capture_output=True, text=True, env=dict(os.environ))
                if r.returncode == 1:
                    confirmed.append((k, path))
                    done_keys.add(k)
                else:
                    unconfirmed.append((k, path, (r.stdout[-300:] + r.stderr[-300:]).strip()))
            if not confirmed:
                # last resort: the failure may depend on what the worker processes did before the job (state shared across calls).  Run the whole
                # check once more in a fresh process: if the same (class, symptom) is reported again it is a property of the code, not of this run.
                r = subprocess.run([sys.executable, os.path.abspath(__file__), 'check', prop, '--tier', args.tier, '--no-confirm'],
                                   capture_output=True, text=True, env=dict(os.environ, VERIF_OUT_DIR=os.path.join(out_dir, 'rerun')))
                again = {(m.group(1), m.group(2)) for m in __import__('re').finditer(r'unlisted violation class=(\S+) symptom=(\S+)', r.stdout)}
                if r.returncode == 1 and again & set(unlisted_keys):
                    print('note: the recorded cases do not reproduce in isolation, but a second complete run in a fresh process reports the same '
                          'violation classes: the failure depends on earlier calls in the same process')
                    replay_paths = [(k, p) for k, p in replay_paths if k in again]
                    unconfirmed = []
                else:
                    for k, path, out in unconfirmed[:3]:
                        print(out)
                        print(f'HARNESS-ERROR: violation {k} did not reproduce in a fresh process ({path}); no verdict')
                    sys.exit(2)
            for k, path, out in unconfirmed:
                if k not in done_keys:
                    print(f'note: an example of {k} did not reproduce in a fresh process ({path}); other violations did')
            replay_paths = confirmed + [(k, p) for k, p in replay_paths if k not in done_keys and all(p != u[1] for u in unconfirmed)]

    ks = [{'class': f['cls'], 'symptom': f['symptom'], 'count': c} for (f, c) in known_seen.values()]
    ctx.extra['stale_known_findings'] = [{'class': f['cls'], 'symptom': f['symptom']} for f in stale]
    ev_path = os.path.join(out_dir, 'evidence', f'{prop}.json')
    ev = core.write_evidence(ctx, sum(unlisted_keys.values()), ks, ev_path)

    for (f, c) in known_seen.values():
        print(f"KNOWN-FINDING: property={prop} class={f['cls']} symptom={f['symptom']} cases={c} :: {f['what']}")
    cov = ev['coverage']
    print(f"{prop} {args.tier} seed={seed}: states={cov['states']} transitions={cov['transitions']} "
          f"traces={cov['traces_validated_against_impl']} evaluations={cov['evaluations']} "
          f"nontrivial={cov['distinct_nontrivial']} outcomes={cov['distinct_outcomes']} "
          f"exhaustive={cov['exhaustive']} wall={ev['wall_s']}s")
    if ctx.caps:
        print('caps hit:', ctx.caps[:3])
    if unlisted_keys:
        for k, c in sorted(unlisted_keys.items()):
            print(f'unlisted violation class={k[0]} symptom={k[1]} cases={c}')
        seen = set()
        for k, path in replay_paths:
            if k in seen:
                continue
            seen.add(k)
            print(f'VIOLATION property={prop} replay={path}')
        sys.exit(1)
    sys.exit(0)


def _find(cls, symptom, findings):
    for f in findings:
        if f['cls'] == cls and f['symptom'] == symptom:
            return f
    return None


def _listed(v, findings):
    return _find(v['cls'], v['symptom'], findings) is not None


if __name__ == '__main__':
    main()
