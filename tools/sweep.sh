#!/bin/bash
# usage: sweep.sh <tier> <seed...>   runs every claimed check, prints one line per (property, seed)
tier=${1:-quick}; shift
seeds=${@:-0}
for s in $seeds; do
  for p in C01 C02 C03 C04 C05 C06 C07 C08 C09 C10 C11 C12 C13 C14 C15 C16 C17 C18 C19 C20; do
    out=$(VERIF_SEED=$s /venv/bin/python /verif/run.py check $p --tier $tier 2>&1); rc=$?
    echo "$p seed=$s rc=$rc $(echo "$out" | grep -c '^KNOWN-FINDING') known | $(echo "$out" | grep "^$p $tier" | sed 's/.*wall=/wall=/') $(echo "$out" | grep '^VIOLATION\|^unlisted\|HARNESS' | head -3 | tr '\n' ';' | cut -c1-300)"
  done
done
