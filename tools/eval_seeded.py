#!/usr/bin/env python3
"""Evaluate seeded changes produced by a sub-agent and file the confirmed ones under /verif/seeded/.

usage: eval_seeded.py <out_dir> <property> [--checks C01,C02,...] [--tier quick]

For every <out_dir>/changeK.diff (+ demoK.py):
  1. copy /repo to a scratch directory outside /repo and /verif, apply the patch;
  2. run the pinned suite on the copy (must stay green);
  3. run demoK.py against /repo (must exit 0) and against the copy (must exit non-zero);
  4. run the quick checks (default: all 20) with KERNPY_SRC=<copy>, note which report a VIOLATION;
  5. if 2 and 3 hold, store /verif/seeded/<property>-<tag>K/{patch.diff,demo.py,meta.json};
  6. remove the scratch copy."""
import argparse
import glob
import json
import os
import re
import shutil
import subprocess
import sys
import tempfile

ALL = [f'C{i:02d}' for i in range(1, 21)]
# the checks are run from a frozen snapshot of /verif when one exists (so that edits made while a batch is evaluated do not change the verdicts)
RUN_HOME = os.environ.get('VERIF_FROZEN') or ('/tmp/verif_frozen' if os.path.exists('/tmp/verif_frozen/run.py') else '/verif')
ap = argparse.ArgumentParser()
ap.add_argument('out_dir')
ap.add_argument('prop')
ap.add_argument('--checks', default=','.join(ALL))
ap.add_argument('--tier', default='quick')
ap.add_argument('--tag', default='s')
ap.add_argument('--only', default='')
a = ap.parse_args()
checks = a.checks.split(',')
readme = ''
rp = os.path.join(a.out_dir, 'README.md')
if os.path.exists(rp):
    readme = open(rp, encoding='utf-8', errors='replace').read()

for diff in sorted(glob.glob(os.path.join(a.out_dir, 'change*.diff'))):
    k = re.search(r'change(\d+)\.diff', diff).group(1)
    if a.only and k not in a.only.split(','):
        continue
    demo = os.path.join(a.out_dir, f'demo{k}.py')
    sid = f'{a.prop}-{a.tag}{k}'
    scratch = tempfile.mkdtemp(prefix='kpseed_', dir='/tmp')
    try:
        tree = os.path.join(scratch, 'repo')
        shutil.copytree('/repo', tree, ignore=shutil.ignore_patterns('.git', '__pycache__', '*.pyc'))
        r = subprocess.run(['patch', '-p1', '-s', '-i', os.path.abspath(diff)], cwd=tree, capture_output=True, text=True)
        if r.returncode:
            print(f'{sid}: patch does not apply: {r.stdout[-300:]}')
            continue
        t = subprocess.run([sys.executable, '/verif/tools/pinned_tests.py', tree], capture_output=True, text=True)
        tests_ok = t.returncode == 0
        env0 = dict(os.environ, PYTHONPATH='/repo', PYTHONDONTWRITEBYTECODE='1')
        env1 = dict(os.environ, PYTHONPATH=tree, PYTHONDONTWRITEBYTECODE='1')
        d0 = d1 = None
        if os.path.exists(demo):
            d0 = subprocess.run(['/venv/bin/python', demo], cwd=scratch, env=env0, capture_output=True, text=True, timeout=600).returncode
            d1 = subprocess.run(['/venv/bin/python', demo], cwd=scratch, env=env1, capture_output=True, text=True, timeout=600).returncode
        demo_ok = d0 == 0 and d1 not in (0, None)
        flagged, silent, broken = [], [], []
        detail = {}
        for c in checks:
            env = dict(os.environ, KERNPY_SRC=tree)
            try:
                rr = subprocess.run(['/venv/bin/python', RUN_HOME + '/run.py', 'check', c, '--tier', a.tier], capture_output=True, text=True, env=env, timeout=1500)
            except subprocess.TimeoutExpired:
                broken.append(c)
                detail[c] = 'timeout after 1500 s'
                subprocess.run(['pkill', '-9', '-f', f'KERNPY_SRC_MARK_{os.path.basename(scratch)}'])
                continue
            lines = [l for l in rr.stdout.split('\n') if l.startswith('unlisted')]
            if rr.returncode == 1:
                flagged.append(c)
                detail[c] = [l[:200] for l in lines[:3]]
            elif rr.returncode == 0:
                silent.append(c)
            else:
                broken.append(c)
                detail[c] = (rr.stdout[-600:] + rr.stderr[-600:])
        verdict = 'confirmed' if (tests_ok and demo_ok) else 'rejected'
        print(f'{sid}: tests_ok={tests_ok} demo(unchanged={d0}, changed={d1}) -> {verdict}; flagged by {flagged}; harness errors {broken}')
        if verdict == 'confirmed':
            dst = os.path.join('/verif/seeded', sid)
            os.makedirs(dst, exist_ok=True)
            shutil.copy(diff, os.path.join(dst, 'patch.diff'))
            shutil.copy(demo, os.path.join(dst, 'demo.py'))
            m = re.search(rf'(?ims)^#+[^\n]*(?:change\s*{k}\b|{k}[.):])[^\n]*\n(.*?)(?=^#+[^\n]*(?:change\s*\d|\d[.):])|\Z)', readme)
            meta = {
                'id': sid, 'breaks_property': a.prop, 'origin': 'independent sub-agent given only the property text and a scratch worktree',
                'needs_to_manifest': (m.group(1).strip()[:1500] if m else readme[:1500]),
                'verified': {'pinned_suite_green_with_change': tests_ok, 'demo_exit_unchanged_tree': d0, 'demo_exit_changed_tree': d1,
                             'how': 'tools/eval_seeded.py: patch applied to a scratch copy of /repo, tools/pinned_tests.py <copy>, demo.py with PYTHONPATH=/repo and =<copy>, '
                                    f'then `run.py check <C> --tier {a.tier}` with KERNPY_SRC=<copy> for {len(checks)} checks'},
                'checks_reporting_a_violation': flagged, 'checks_silent': silent, 'checks_with_harness_error': broken, 'first_unlisted_lines': detail,
                'detected_by_target_check': a.prop in flagged,
            }
            json.dump(meta, open(os.path.join(dst, 'meta.json'), 'w'), indent=1, ensure_ascii=False)
    finally:
        shutil.rmtree(scratch, ignore_errors=True)
