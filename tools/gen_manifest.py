#!/venv/bin/python
"""Regenerate /verif/MANIFEST.json from the table below (only properties whose driver exists are claimed)."""
import json
import os

V = '/verif'
props = [json.loads(l) for l in open(f'{V}/properties.jsonl')]

T_GRID = 'exhaustive enumeration of finite value grids against an independent reference model'
T_PATHS = 'bounded-exhaustive exploration of the row transition system (all row sequences / deviations up to a bound) replayed on the real importer/exporter against a reference model'
T_HIST = 'explicit-state BFS over call histories on live objects with reflection snapshots'

CHECKS = {
    'C20': ("25-60 documents x {LF, CRLF, CR} x {final newline, none} (incl. non-ASCII lyrics and eight Unicode line-boundary characters inside a cell): every observation of load(file) must "
            "equal that of loads(text) and must not depend on the line ends (plus 24 long lyrics files of dense 2-, 3- and 4-byte characters x 8 paddings, so that every 512-byte block boundary falls inside a character in some variant); x 10 option sets: the bytes dump writes (also into missing nested directories) must decode to dumps' "
            "string; the CLI is run as a subprocess in single-file mode (with and without --output_path), directory mode and recursive directory mode (nested directories, both "
            "suffixes, a file with an import error, unrelated files) in both directions: outputs must equal the API's, exactly the expected files appear, nothing else changes, "
            "ekern -> kern -> ekern is the identity. Also one path rewritten between loads (same length, other length, removed and re-created), and the converters applied to files with 1-4 kern spines one after the other in one process (three orders) and through the directory mode (two namings).",
            'Assumes a UTF-8 preferred encoding (set explicitly for the CLI subprocesses). Works in a fresh temporary directory that is removed afterwards.',
            'exhaustive enumeration of the (document x line end x final newline x option set x CLI layout) grid against the in-memory API', 'DESIGN.md §3 C20'),
    'C15': ("21 (thorough 110) documents - core-only (single notes without accidentals over 9 octaves, rests, grace notes, non-kern spines, split/join) and mixed (accidentals, chords) - x all 40 "
            "intervals x 2 directions: the transposed export must have the same grid, every non-note cell, duration, signifier set and rest unchanged, each note's (letter, "
            "alteration, octave) must be the pitchref transposition of the source note, the call may raise only when some exact result needs more than two accidentals, the source's "
            "export must be unchanged and transposing back must restore it. Cells are labelled by class; failures in the three non-core classes named by the property are known findings.",
            'Trusted: kv/pitchref.py (C09 arithmetic), kv/model.py row alignment.', 'exhaustive enumeration of the interval x direction grid on a document family against a reference model', 'DESIGN.md §3 C15'),
    'C18': ("9 non-kern headers (text, dynam, dyn, harm, mxhm, fing and three unknown ones) x a corpus of one token per grammar alternative, free text, malformed texts, look-alikes and ALL "
            "strings of length <=2 over a 49-character alphabet (thorough: + all length-3 strings over 25 characters; 2.6k / 18k cells per header): import never raises; whether a cell is "
            "shared structure is decided by an independent recogniser (regular expressions from the Humdrum syntax) - then category and export must be those of a **kern spine, otherwise "
            "the token must be verbatim with the spine type's own category (the corpus includes texts that Unicode normalisation, case folding, trimming, escaping or number parsing would change); a shared importer instance must agree with a fresh one. Document level: the same rows under every type give "
            "the same measure count and barline stages. Also single documents in which spines of DIFFERENT non-kern types (all ordered pairs, some triples) carry the same cell texts.",
            'Trusted: the recogniser in kv/props/c18.py. Prefix parses (=foo -> =) are a known finding shared with C12.', T_GRID, 'DESIGN.md §3 C18'),
    'C12': ("(a) Every token history up to depth 2 (thorough 3) over 12 valid + 17 malformed tokens on ONE live spine importer of each of 8 spine types, followed by closure of the importer's "
            "reflection-fingerprint graph: the outcome for a token must equal the outcome on a fresh importer. (b) Four skeleton documents (1-3 spines incl. root/dynam/harm/mxhm, a split) x "
            "every placement of one malformed cell x 17 malformed texts, every pair of placements (thorough: every triple on the small skeleton), and a blank line before the damage; "
            "oracle = reference model of the damaged document (one error per malformed kern cell with physical line number and text, other tokens untouched, malformed cells "
            "verbatim in place) + undamaged twin; where the error list is right, raise_on_errors=True must raise exactly when it is non-empty and name every malformed cell and line. Also mass damage on a giant document: a malformed cell at the very end, the same malformed text 40 times, 300 malformed cells in one import (more than 10 000 kern cells in the thorough tier).",
            'Trusted: kv/model.py, kv/snapshot.py. The prefix-parse class (characters after a valid token are dropped) is a known finding.', T_HIST + ' + ' + T_PATHS, 'DESIGN.md §3 C12'),
    'C14': ("Explicit-state BFS over call histories on a live Document (8 documents quick / 41 thorough, incl. one with import errors, one without measures, one without clef; 70-75 read-only "
            "operations incl. calls that raise): state = reflection snapshot of the document, of every mutable module-level container and class attribute of kernpy, and of every "
            "option object handed to a call. Every op, every op twice and ALL ordered op pairs (chained on one live object) must return what a fresh import returns; two imports must be "
            "indistinguishable; module state and option objects must be unchanged. On the current tree every call is a self-loop, so the reachable state set is {s0} and the result covers "
            "histories of any length; a state-changing op would be explored by BFS to depth 12. In addition all ordered triples over a reduced set of 16 operations on one live object, and partial / nested iteration operations (with a watchdog for operations that do not return).",
            'Trusted: kv/snapshot.py reflection walk (no field names hard-coded; Node.NextID excluded). Graph output compared modulo node identifiers.', T_HIST, 'DESIGN.md §3 C14'),
    'C19': ("Kern-only documents (every row sequence to length 4/3, thorough 5/4, over data, barline, null, clef, split, join; <=1/2 deviations of a backbone) cut at EVERY subset of their "
            "barline rows (<=5 cuts) with both separators; concat's document must equal the import of the joined text (three views), one pair per fragment, pairs consecutive, last 'to' == "
            "measure count, and exporting pair i must give exactly the data lines of fragment i (the (0,0) pair of a header-only first fragment: none). Blank lines inside fragments and scores with a spine terminated early are included; the measure index is re-read after the exports. Also a giant score (1 500 rows, 375 measures, more than 64 KiB) cut at boundary positions (first / last barline, 64th, 128th, 256th / 257th).",
            'Fragment data lines are compared in normal form taken from kernpy\'s own full export (C03).', T_PATHS + ' x exhaustive cut sets', 'DESIGN.md §3 C19'),
    'C07': ("Every row sequence up to length 5/4/4/3 (thorough 6/5/5/4) over data, barline, null interpretation, clef row, null data, split, join for 1-3 kern spines (and kern+text exported with "
            "spine_types=['**kern']) plus all <=2 (3) deviations of a backbone score; for each document EVERY range 1<=a<=b<=M, (a,None), (None,b) and eight out-of-range shapes. Oracle: the "
            "full export tiled by its barline rows - data lines of the range byte-identical and in order, opening/closing barline, single-measure exports partition the data lines, "
            "iteration yields 1..M, ValueError for the out-of-range shapes. Also all sequences to length 6/5 (7/6) over data row, plain numbered barline and global comment (empty measures between equal barlines, comments next to barlines), blank-line variants, long scores (about 30 measures, all 465 ranges), and concurrent / abandoned / nested iterations of the same document. Also two giant documents (about 1 950 lines, 375 measures, one spine ending early): every single measure and every pair over the boundary values (1, 2, 9-11, 63-65, 99-101, 127-129, 255-258, 299-301, M-2..M); nested iteration is driven with explicit step bounds.",
            'Oracle derived from kernpy\'s own full export (C03 decides that export); indifferent to whether an empty leading measure is numbered.', T_PATHS, 'DESIGN.md §3 C07'),
    'C08': ("Every row sequence up to length 6/5/5/4 over data, barline, uniform clef/key/time rows, first-column-only clef/time rows, split, join for 1-2 kern spines (thorough: 3 spines, "
            "kern next to text) x every measure range (15k quick / 755k thorough excerpts). Each excerpt is labelled by the model's state at its first row; in the claimed core "
            "(and in the partial-signature-row class, repaired in this work) the excerpt must be accepted by the SpineModel acceptor, re-import without errors and carry the same "
            "(note, clef/key/time in force) sequence as the full score; the other three classes are tracked as known findings symptom by symptom. Also giant kern-only documents (1 200 / 1 500 rows, a spine ending 150 rows early) x ranges over the boundary values, incl. excerpts of more than 1 024 lines and excerpts starting 1 000 rows below the header.",
            'Trusted: text-level acceptor and context model in kv/props/c08.py (no kernpy call). Class predicate in DESIGN §3 C08.', T_PATHS + '; SpineModel used as acceptor', 'DESIGN.md §3 C08'),
    'C10': ("Pitch level, exhaustive: 7 clefs x 5 octave marks x 7 letters x 5 accidentals x octaves 0..8 through ClefFactory/pitch_to_gkern_string (G2 identity, one-step translation "
            "chained over the whole range, bottom line -> 'e', accidental carried over, octave marks irrelevant, bottom line = the staff's musical bottom line) and 7x3-5x8 one-note "
            "document grids for all accidental spellings incl. natural and display suffix. Document level: every enabled row sequence to depth 3-5 with single-column clef "
            "changes, splits, joins, chords and rests; each agnostic cell is compared with the model's clef in force for that cell. The relation is also checked under three category filters and through one Exporter instance used for kern, akern, kern, aekern in a row. Also a clef sweep in ONE process: one-note documents under all 35 clef x octave-mark combinations one after the other in three orders.",
            'Trusted: kv/pitchref.py staff-step arithmetic; kv/model.py signature context (inherited through parent links). Five clefs have a non-musical bottom line pinned by the tests: known findings.',
            T_GRID + ' + ' + T_PATHS, 'DESIGN.md §3 C10'),
    'C13': ("15-88 documents (>=2 spines, >=2 types, split, clef) x every subset of spine ids x every subset of present types x 23 category selections x 6 encodings, each compared "
            "with the composition of the three reference transforms (which commute by construction), plus one explicit-default spelling of an option per case that must be "
            "string-identical to omitting it, and one re-spelling of an option value in force (reversed, with a repeated member, other container) that must not change the export. Plus the options-object interface with one ExportOptions instance reused for a smaller document first, and skeletons with a spine terminated early. Also a hand-picked option product (13 id sets x 3 type sets x 7 selections x 4 encodings) on ONE Document object for a giant document (1 950 lines), a fourteen-spine document (two-digit ids) and power-of-two-aligned documents; documents with an invisible barline in one column only.",
            'Trusted: kv/model.py reference exporter, kv/pitchref.py; leniencies of DESIGN §2.1.',
            'exhaustive enumeration of the option product on a document family against a reference exporter', 'DESIGN.md §3 C13'),
    'C04': ("For every document of a bounded space (all row sequences to depth 3/4 after a clef row, 9-20 header configurations, <=1/2 deviations of a backbone) and each of 8 category "
            "selections that keep durations or pitches, all six encodings are exported and related: plain == extended minus separators (three pairs), basic == full with the signifier "
            "group removed note by note (chord sizes from the model), headers == '**'+prefix+type, non-note cells identical in all six. The same relations are checked on measure-range exports; a model-based clause forbids any signifier of the abstract note in a basic cell. Also a 680-row document.",
            'Relational oracle between kernpy\'s own outputs; kv/model.py contributes only cell kinds, chord sizes and row alignment.', T_PATHS, 'DESIGN.md §3 C04'),
    'C05': ("37-300 documents containing every cell kind and category x every distinct selected set denoted by the 705x704 (include<=2|None, exclude<=2) pairs (4368 sets), complements of "
            "singles and pairs, and all 2^16 unions of top-level categories; each extended export is compared with T_cat applied to the abstract grid; kernpy's own selected-set "
            "computation is re-asserted through the option parser. Reuse of one include/exclude OBJECT for consecutive calls and the options-object interface with token_categories reassigned between exports are driven as well. Also a giant document of 2 100 lines and power-of-two-aligned documents x every single include, every single exclude and a few pairs (DESIGN 10.18).",
            'Trusted: kv/model.py T_cat, kv/catref.py. Leniency: a chord left with only null notes makes its row optional; chord notes may show signifiers of their chord.',
            'exhaustive enumeration of the option grid (reduced to distinct selected sets) on a document family, against a reference exporter', 'DESIGN.md §3 C05'),
    'C01': ("Token level: every abstract note of the stated alphabets (9 durations x 2-5 pitches x 8 accidentals x every signifier set of size <=2 from 37 signifiers; rests; chords) in "
            "EVERY written variant (order, slot before/after duration, pitch, accidental, doubling) - each abstract note must have exactly one normal form, and every normal form must be "
            "a fixed point of import-then-export through the plain route, the separator-stripping route and get_kern_from_ekern. Document level: all row sequences to depth 3/4 and all "
            "<=2 deviations of a backbone, same differential fixed-point oracle. Cell-corpus pass: every cell of C18's corpus plus every barline with the invisibility flag in four small frames - whenever the frame imports without errors the laws must hold (glued strings in **kern columns, '**' cells and the separator characters are outside the domain); staff-change marks written apart from the mark they combine with (a known finding). Also documents far beyond the bounds: 680-row documents (137 measures numbered to three digits, 45 split/join cycles).",
            'Differential oracle, no reference model. Alphabet rules of DESIGN §2.7 (X i j Z only without accidental; W and w never together).',
            'bounded-exhaustive enumeration of written variants and of row sequences with a differential fixed-point oracle', 'DESIGN.md §3 C01'),
    'C06': ("Every enabled row sequence up to depth 3-5 (data, barline, every split, every join, every single termination) for 1-4 spines, and for each resulting document every subset "
            "of spine ids (ascending, descending, duplicated, set, tuple), every subset of the header types present and every combination; each export must be string-identical to "
            "kernpy's own full export with the columns of the unselected spines (per the model's column->spine map) deleted and all-null lines dropped; the spine-type query must "
            "equal the projected header line. Includes a twelve-spine document (two-digit spine ids) with singles, pairs and complements. Also (DESIGN 10.17/10.18): 680-row, giant (1 950 lines) and power-of-two-aligned documents (all three alignments) x every subset; an invisible barline in one column only; one options object re-used with a re-assigned selection.",
            'Trusted: column->spine map of kv/model.py (itself checked against the tree in C02).', T_PATHS, 'DESIGN.md §3 C06'),
    'C17': ("Every enabled row sequence up to depth 3-5 over data, interpretation, field-comment, barline, global-comment rows and every split/join/termination, with and without "
            "pre-header comments; for each document the full listing, 37 single-category filters and a rotating eighth of 143 larger filters are compared with the model's depth-first "
            "order and documented categories; unique listings, frequencies, encodings listings, comment query (with every prefix of every key present / clear) and monophony are derived and compared; comment layouts: every sequence of <=2/3 of 15 comment lines before the header, inside the score and after the terminators. The previously checked document stays alive and is queried again after the current one (two documents in one process). Also 680-row, giant (1 950 lines, recursion depth, several thousand distinct encodings) and power-of-two-aligned documents with every filter; one filter container edited in place between consecutive queries.",
            'Trusted: kv/model.py depth-first order, kv/alphabet.py documented categories, kv/catref.py closure.', T_PATHS, 'DESIGN.md §3 C17'),
    'C03': ("Every document of a bounded space (all row sequences up to depth 3/4 over data, interpretation, comment, barline, null, split, join, global-comment rows for 9-24 header "
            "configurations; all <=2 (3) edits of a backbone score; every corpus member in every column) is imported and exported in plain and extended form, and the result is "
            "compared cell by cell with a reference exporter that works on the generator's abstract description of each cell (never on kernpy's parse). Every second document is exported after filtered / basic exports in the same process (non-initial process state); long (66-123 rows) and twelve-spine documents are included. Also documents far beyond the bounds (DESIGN 10.18): 680-row documents, a giant document of about 1 950 lines with more than 4 600 different kern cells and 64 KiB of text, and documents whose rare rows sit exactly on power-of-two line numbers; chords repeating a signifier on every note.",
            'Trusted: kv/alphabet.py abstract corpora, kv/model.py reference exporter. Leniencies (null placeholder spelling, component order) in DESIGN §2.1.',
            T_PATHS, 'DESIGN.md §3 C03'),
    'C02': ("Lock-step refinement of kernpy's importer against the SpineModel: explicit-state BFS to closure over the merged (layout, implementation fingerprint) "
            "state graph under a column cap, every transition (data, null, clef, tandem, comment, barline, global comment, every single/double split, every legal "
            "join incl. runs of 3 and two runs in a row, every single termination, terminate-all) replayed by importing the history and comparing the whole tree "
            "(stage per line, node per cell, parent, header, spine id, literal text, children order, public spine ids/types/token cells); in every reached state each row "
            "kind is offered with every kind of surplus cell (must raise). Plus unmerged enumeration of all operator sequences to depth 4/5 and literal cells (quote, comma, "
            "space, non-ASCII) in every column and position. Also: every literal cell through the file reader (load) as well, blank-line variants, rows that join one run and split another column at once, and hand-made documents beyond the bounds (twelve spines, four levels of nested splits). "
            "Second model: the same rules as a TLA+ specification (tla/SpinePaths.tla: every assignment of * / *^ / *v / *- to the live columns that obeys the join rule, plus plain rows) explored to closure by TLC, "
            "which also checks the model's invariants; EVERY edge of the dumped state graph is replayed against kernpy with a witness history and a probe row (parents, spine ids, widths, surplus cell) and against kv/model.py (kv/tlcspine.py).",
            'Trusted: kv/model.py SpineModel and tla/SpinePaths.tla (written independently; a disagreement between them is a harness error). Bounds: <=3 (thorough 4) spines, column cap 4-6, depth 4/5 for unmerged paths. Merging argument in DESIGN §3 C02.',
            'explicit-state BFS to closure with lock-step refinement check against a reference model + bounded-exhaustive path enumeration + TLC explicit-state exploration of a TLA+ model whose every graph edge is replayed against the implementation', 'DESIGN.md §3 C02, §10.16'),
    'C09': ("All 25 200 (pitch, interval, direction) edges of the property's grid and all depth-2 paths of the transition graph they induce "
            "(every second edge from every reached spelling) are executed on kernpy.transpose / transpose_agnostics and compared with an independent "
            "letter/semitone model; inverse, unison, octave, fourth+fifth and general composition laws are evaluated on every path. Decided on the stated grid.",
            'Trusted: kv/pitchref.py. Pitches outside octaves 0..8 are reached only as second-step states.', T_GRID, 'DESIGN.md §3 C09'),
    'C11': ("Every query of the category algebra is evaluated on the complete finite grids named by the property (37 categories, 37x37 pairs, 705x705 include/exclude "
            "pairs of size<=2 incl. None, 37 match targets, all 2^16 unions of top-level categories, and inside each top-level tree every include subset x every exclude subset for valid and match - quick tier: include size <= 2 in the 11-node CORE tree) and compared with the README tree transcribed by hand; within those grids the property is decided, not sampled. History passes: the same argument object for consecutive calls, a container edited between two match calls, returned sets edited by the caller before asking again.",
            'Trusted: kv/catref.py (hand transcription of the README tree); CPython enum semantics.', T_GRID, 'DESIGN.md §3 C11'),
    'C16': ("All 539 spellings, imported and exported, each exported three times from the same object with a snapshot of its public view (data attributes, repr, str) before/after; re-spell histories (export, re-spell through the public setters, export again); all 539^2 histories of length 2 "
            "through one shared importer and one shared exporter, plus two histories of length 539. Decided on the stated grid. The object returned by an earlier import / given to an earlier export is inspected again after a later call through the same instance.",
            'Trusted: kv/pitchref.py spelling model.', T_GRID + '; history enumeration on shared codec instances', 'DESIGN.md §3 C16'),
}


def chk(pid):
    text, note, technique, ref = CHECKS[pid]
    return {
        'property_id': pid,
        'quick_cmd': f'/venv/bin/python /verif/run.py check {pid} --tier quick',
        'thorough_cmd': f'/venv/bin/python /verif/run.py check {pid} --tier thorough',
        'evidence_file': f'/verif/evidence/{pid}.json',
        'replay_cmd_template': f'/venv/bin/python /verif/run.py check {pid} --replay {{path}}',
        'engine': 'kv',
        'level_claimed': {'category': 'model_checking', 'text': text, 'design_ref': ref},
        'level_note': note,
        'technique': technique,
    }


claimed = sorted(p for p in CHECKS if os.path.exists(f'{V}/kv/props/{p.lower()}.py'))
NA = {}
m = {
    'version': 1,
    'setup_cmd': '/venv/bin/python -m compileall -q /verif/kv /verif/run.py && /venv/bin/python /verif/tests/selftest.py',
    'hooks': {
        'guard': 'KERNPY_VERIF',
        'enable': "no source hook exists: checks import kernpy from /repo's working tree (KERNPY_SRC, default /repo) and observe it through its public API and documented attributes",
        'baseline_off_cmd': 'cd /repo && /venv/bin/python -m pytest -ra -q -p no:cacheprovider --timeout=900 --continue-on-collection-errors',
        'source_commits': [],
        'add_only': True,
    },
    'engines': [{
        'name': 'kv', 'path': '/verif/kv', 'serves_properties': claimed,
        'kind_free_text': 'hand-written explicit-state / bounded-exhaustive explorer in Python: grid enumeration, path and deviation enumeration over a row '
                          'transition system, history BFS on live objects; reference models in kv/model.py, kv/pitchref.py, kv/catref.py',
    }],
    'checks': [chk(p) for p in claimed],
    'not_applicable': [{'property_id': p['id'], 'reason': NA.get(p['id'], 'check under construction in this session (model checking applies; see DESIGN.md §3)')}
                       for p in props if p['id'] not in claimed],
    'notes': 'See DESIGN.md. Known findings: KNOWN_FINDINGS.txt. Seeded property-breaking changes: seeded/.',
}
json.dump(m, open(f'{V}/MANIFEST.json', 'w'), indent=1)
print('claimed', claimed)
