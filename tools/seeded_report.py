#!/usr/bin/env python3
"""Summarise /verif/seeded/*/meta.json as a markdown table (stdout) - pasted into DESIGN.md §10.7 and seeded/README.md."""
import glob
import json
import os
import re

initial = {}
for log in sorted(glob.glob('/verif/seeded/round*_initial_checks.log')):
    for line in open(log):
        m = re.match(r'(C\d+-\w+): .* flagged by (\[.*?\]); harness errors (\[.*?\])', line)
        if m:
            initial[m.group(1)] = (eval(m.group(2)), eval(m.group(3)))

rows = []
for mp in sorted(glob.glob('/verif/seeded/*/meta.json')):
    m = json.load(open(mp))
    sid = m['id']
    need = re.sub(r'\s+', ' ', m.get('summary') or m['needs_to_manifest'])[:230]
    ini = initial.get(sid)
    ini_s = '—' if ini is None else (', '.join(ini[0]) or 'none') + (f' (harness error: {", ".join(ini[1])})' if ini[1] else '')
    now = list(m['checks_reporting_a_violation'])
    det = m['detected_by_target_check']
    fr = m.get('final_recheck')
    if fr is not None:          # verdict of the target check as delivered (tools/reverify_seeded.py) overrides the one recorded when the change arrived
        det = fr.get('target_check_exit') == 1
        if det and m['breaks_property'] not in now:
            now.insert(0, m['breaks_property'])
        if not det and m['breaks_property'] in now:
            now.remove(m['breaks_property'])
    rows.append((sid, m['breaks_property'], need, ini_s, ', '.join(now) or 'none', 'yes' if det else 'NO'))

print('| id | breaks | what the change does / needs to manifest | flagged by the checks as they were when the change arrived | flagged now | target check detects |')
print('|---|---|---|---|---|---|')
for r in rows:
    print('| ' + ' | '.join(x.replace('|', '\\|') for x in r) + ' |')
n = len(rows)
print(f'\n{n} confirmed seeded changes; {sum(1 for r in rows if r[5] == "yes")} detected by their target check, '
      f'{sum(1 for r in rows if r[4] != "none")} detected by at least one check.')
