#!/usr/bin/env python3
"""Final regression over /verif/seeded: apply every patch to a scratch copy of the CURRENT /repo and run its target check (quick tier, with
confirmation).  Records the verdict in meta.json under 'final_recheck'.  usage: reverify_seeded.py [id-prefix ...]"""
import glob
import json
import os
import shutil
import subprocess
import sys
import tempfile

sel = sys.argv[1:]
head = subprocess.run(['git', '-C', '/repo', 'log', '--format=%h', '-1'], capture_output=True, text=True).stdout.strip()
vhead = subprocess.run(['git', '-C', '/verif', 'log', '--format=%h', '-1'], capture_output=True, text=True).stdout.strip()
bad = []
for d in sorted(glob.glob('/verif/seeded/*/')):
    sid = os.path.basename(d.rstrip('/'))
    if sel and not any(sid.startswith(s) for s in sel):
        continue
    mp = os.path.join(d, 'meta.json')
    if not os.path.exists(mp):
        continue
    m = json.load(open(mp))
    prop = m['breaks_property']
    scratch = tempfile.mkdtemp(prefix='kprev_', dir='/tmp')
    try:
        tree = os.path.join(scratch, 'repo')
        shutil.copytree('/repo', tree, ignore=shutil.ignore_patterns('.git', '__pycache__', '*.pyc'))
        r = subprocess.run(['git', 'apply', '--directory', tree.lstrip('/'), '--unsafe-paths', os.path.join(d, 'patch.diff')], cwd='/', capture_output=True, text=True)
        if r.returncode:
            r = subprocess.run(['patch', '-p1', '-s', '-i', os.path.join(d, 'patch.diff')], cwd=tree, capture_output=True, text=True)
        if r.returncode:
            print(f'{sid}: patch does not apply')
            bad.append(sid)
            continue
        env = dict(os.environ, KERNPY_SRC=tree)
        d1 = subprocess.run(['/venv/bin/python', os.path.join(d, 'demo.py')], cwd=scratch, env=dict(os.environ, PYTHONPATH=tree), capture_output=True, text=True).returncode
        try:
            rr = subprocess.run(['/venv/bin/python', '/verif/run.py', 'check', prop, '--tier', 'quick'], capture_output=True, text=True, env=env, timeout=1800)
            rc = rr.returncode
            lines = [l[:160] for l in rr.stdout.split('\n') if l.startswith('unlisted')][:2]
        except subprocess.TimeoutExpired:
            rc, lines = 'timeout', []
        m['final_recheck'] = {'repo_commit': head, 'verif_commit': vhead, 'demo_exit_changed_tree': d1, 'target_check_exit': rc, 'first_unlisted_lines': lines}
        json.dump(m, open(mp, 'w'), indent=1, ensure_ascii=False)
        ok = rc == 1 and d1 != 0
        print(f'{sid}: target {prop} exit={rc} demo={d1} {"ok" if ok else "<<<<<< NOT DETECTED"}', flush=True)
        if not ok:
            bad.append(sid)
    finally:
        shutil.rmtree(scratch, ignore_errors=True)
print('not detected:', bad)
