#!/usr/bin/env python3
"""Run the pinned test suite of a kernpy tree (default /repo) and compare with /root/.vp/BASELINE.json.
usage: pinned_tests.py [tree]   -- exit 0 iff every stable_pass test passes."""
import json, os, subprocess, sys, tempfile, xml.etree.ElementTree as ET
tree = os.path.abspath(sys.argv[1]) if len(sys.argv) > 1 else '/repo'
b = json.load(open('/root/.vp/BASELINE.json'))
fd, junit = tempfile.mkstemp(suffix='.xml'); os.close(fd)
env = dict(os.environ, PYTHONPATH=tree, PYTHONDONTWRITEBYTECODE='1')
env.pop('KERNPY_VERIF', None)
subprocess.run(['/venv/bin/python', '-m', 'pytest', '-ra', '-q', '-p', 'no:cacheprovider', '--timeout=900',
                '--continue-on-collection-errors', f'--junitxml={junit}'], cwd=tree, env=env,
               stdout=subprocess.DEVNULL, stderr=subprocess.DEVNULL)
res = {}
for tc in ET.parse(junit).iter('testcase'):
    res[f"{tc.get('classname')}::{tc.get('name')}"] = not any(ch.tag in ('failure', 'error', 'skipped') for ch in tc)
os.unlink(junit)
failing = [n for n in b['stable_pass'] if not res.get(n)]
newly = [n for n, ok in res.items() if ok and n not in b['stable_pass']]
print(f'pinned: {len(b["stable_pass"])} expected, {len(failing)} failing; {len(newly)} additional tests pass')
for n in failing[:20]: print('  FAIL', n)
for n in newly[:20]: print('  newly passing', n)
sys.exit(1 if failing else 0)
