"""Engines over the row transition system (DESIGN.md §2.2): enabled-row menus, path enumeration, deviations."""
import itertools

from . import alphabet as A
from .model import Model


# ---------------------------------------------------------------------------------------------------
# enabled structural rows in a model state

def runs_of(m: Model):
    """maximal runs of adjacent live paths belonging to the same spine: [(i, j)] inclusive"""
    sp = m.spines()
    out = []
    i = 0
    while i < len(sp):
        j = i
        while j + 1 < len(sp) and sp[j + 1] == sp[i]:
            j += 1
        out.append((i, j))
        i = j + 1
    return out


def split_rows(m, cap, pairs=False):
    w = m.width()
    rows = []
    if w + 1 <= cap:
        for j in range(w):
            rows.append((f'split{j}', [A.SPLIT if i == j else A.NULL_I for i in range(w)]))
    if pairs and w + 2 <= cap:
        for j, k in itertools.combinations(range(w), 2):
            rows.append((f'split{j},{k}', [A.SPLIT if i in (j, k) else A.NULL_I for i in range(w)]))
    return rows


def join_rows(m, multi=False, maxrun=3):
    """every sub-run [a,b] (length 2..maxrun) of every same-spine run; with multi also two runs joined in one row"""
    w = m.width()
    subs = []
    for (i, j) in runs_of(m):
        for a in range(i, j + 1):
            for b in range(a + 1, min(j, a + maxrun - 1) + 1):
                subs.append((a, b))
    rows = [(f'join{a}-{b}', [A.JOIN if a <= x <= b else A.NULL_I for x in range(w)]) for a, b in subs]
    if multi:
        for (a, b), (c, d) in itertools.combinations(subs, 2):
            if b < c:   # disjoint, left to right (adjacent runs of different spines may touch)
                if c == b + 1 and m.spines()[b] == m.spines()[c]:
                    continue   # would be one longer run of the same spine
                rows.append((f'join{a}-{b}+{c}-{d}', [A.JOIN if (a <= x <= b or c <= x <= d) else A.NULL_I for x in range(w)]))
    return rows


def mixed_rows(m, cap):
    """one row that joins a run AND splits another column (the width may stay the same while the layout changes)"""
    w = m.width()
    rows = []
    for (i, j) in runs_of(m):
        for a in range(i, j):
            b = a + 1
            for k in range(w):
                if a <= k <= b or w - 1 + 1 > cap:
                    continue
                rows.append((f'join{a}-{b}+split{k}', [A.JOIN if a <= x <= b else (A.SPLIT if x == k else A.NULL_I) for x in range(w)]))
    return rows


def term_rows(m):
    w = m.width()
    if w <= 1:
        return []
    return [(f'term{j}', [A.TERM if i == j else A.NULL_I for i in range(w)]) for j in range(w)]


def V_hidden(n):
    return dict(A.V(f'={n + 1}-', 'BARLINES', '.'), hidden=True)


def content_row(m, kind, n, seed, with_key=False):
    """a palette-filled row: kind in d (data) i (interpretation) c (field comment) b (barline) z (null data) n (null interp)"""
    types = m.types()
    w = len(types)
    if kind == 'd':
        return [A.data_cell(types[i], n, i, seed) for i in range(w)]
    if kind == 'i':
        return [A.interp_cell(types[i], n, i, seed, with_key) for i in range(w)]
    if kind == 'c':
        return [A.comment_cell(n, i, seed) for i in range(w)]
    if kind == 'b':
        return [A.BAR(n * 5 + seed)] * w
    if kind == 'e':     # a plain numbered barline: two of them in a row are an empty measure between two barlines of the SAME type
        return [A.V(f'={n + 1}', 'BARLINES', '=')] * w
    if kind in 'hH':    # an INVISIBLE barline (exported as a null placeholder) in the first (h) / last (H) column only, the same barline visible in the others.
        # Only used where the oracle is a relation between exports (C06, C13, C05): C03 cannot judge hidden tokens (DESIGN 2.7)
        j = 0 if kind == 'h' else w - 1
        return [V_hidden(n) if i == j else A.V(f'={n + 1}', 'BARLINES', '=') for i in range(w)]
    if kind == 'k':     # a clef on every kern-like column (agnostic encodings need a clef in force)
        return [A.V(A.CLEFS[(n + i + seed) % len(A.CLEFS)], 'CLEF') if types[i] in A.KERN_LIKE else A.NULL_I for i in range(w)]
    if kind in 'KTCMDN':   # K key signature / T time signature on every kern-like column; C clef / M time signature on the first one only; D clef / N key signature on the last one only
        keys = ['*k[f#]', '*k[b-]', '*k[]', '*k[f#c#]']
        times = ['*M4/4', '*M3/4', '*M6/8', '*M2/2']
        kern_cols = [i for i in range(w) if types[i] in A.KERN_LIKE]
        out = []
        for i in range(w):
            if i not in kern_cols or (kind in 'CM' and i != kern_cols[0]) or (kind in 'DN' and i != kern_cols[-1]):
                out.append(A.NULL_I)
            elif kind in 'KN':
                out.append(A.V(keys[(n + seed) % 4], 'KEY_SIGNATURE'))
            elif kind in 'TM':
                out.append(A.V(times[(n + seed) % 4], 'TIME_SIGNATURE'))
            else:
                out.append(A.V(A.CLEFS[(n + seed) % 3], 'CLEF'))
        return out
    if kind == 'z':
        return [A.NULL_D] * w
    if kind == 'n':
        return [A.NULL_I] * w
    raise ValueError(kind)


def build(headers, hist, pre=(), close=True):
    """hist: list of rows, each a list of specs or a ('g', text) tuple"""
    m = Model(headers, pre)
    for r in hist:
        if isinstance(r, tuple) and r[0] == 'g':
            m.add_g(r[1])
        else:
            m.add(r)
    if close:
        m.close()
    return m


def seq_model(headers, seq, seed, cap=6, pre=(), with_key=False, close=True):
    """Build a model from a string over the row alphabet:
       d i c b z n  content rows;  S<k> split column k;  J<k> join columns k,k+1;  X<k> terminate column k;  g global comment.
    seq is a list of symbols (e.g. ['d','S0','d','J0','b']).  Returns None if a symbol is not enabled."""
    m = Model(headers, pre)
    for n, s in enumerate(seq):
        w = m.width()
        if w == 0:
            return None
        if s[0] in 'dicbeznkKTCMDNhH':
            m.add(content_row(m, s[0], n, seed, with_key))
        elif s == 'g':
            m.add_g(A.GCOMM[(n + seed) % len(A.GCOMM)])
        elif s[0] == 'S':
            k = int(s[1:])
            if k >= w or w + 1 > cap:
                return None
            m.add([A.SPLIT if i == k else A.NULL_I for i in range(w)])
        elif s[0] == 'J':
            k = int(s[1:])
            sp = m.spines()
            if k + 1 >= w or sp[k] != sp[k + 1]:
                return None
            m.add([A.JOIN if i in (k, k + 1) else A.NULL_I for i in range(w)])
        elif s[0] == 'X':
            k = int(s[1:])
            if k >= w or w <= 1:
                return None
            m.add([A.TERM if i == k else A.NULL_I for i in range(w)])
        elif s[0] in 'ZW':     # two join groups of one spine in one row: (k,k+1) and (k+3,k+4), separated by '*' (Z) or by a terminated sub-spine (W)
            k = int(s[1:])
            sp = m.spines()
            if k + 4 >= w or len({sp[k + i] for i in range(5)}) != 1:
                return None
            mid = A.NULL_I if s[0] == 'Z' else A.TERM
            m.add([A.JOIN if i in (k, k + 1, k + 3, k + 4) else (mid if i == k + 2 else A.NULL_I) for i in range(w)])
        elif s[0] == 'Y':      # join columns k,k+1 and split the last column in the same row
            k = int(s[1:])
            sp = m.spines()
            if k + 2 >= w or sp[k] != sp[k + 1]:
                return None
            m.add([A.JOIN if i in (k, k + 1) else (A.SPLIT if i == w - 1 else A.NULL_I) for i in range(w)])
        else:
            raise ValueError(s)
    if close:
        m.close()
    return m


def symbols(ncols_max, content='dicb', splits=True, joins=True, terms=False, gcomment=False):
    out = list(content)
    if splits:
        out += [f'S{k}' for k in range(ncols_max)]
    if joins:
        out += [f'J{k}' for k in range(ncols_max - 1)]
    if terms:
        out += [f'X{k}' for k in range(ncols_max)]
    if gcomment:
        out.append('g')
    return out


def all_seqs(alphabet, maxlen, minlen=1):
    for l in range(minlen, maxlen + 1):
        yield from itertools.product(alphabet, repeat=l)


def chunks(seq, n):
    seq = list(seq)
    for i in range(0, len(seq), n):
        yield seq[i:i + n]


# ---------------------------------------------------------------------------------------------------
# depth-first enumeration of every enabled row sequence (no merging)

def struct_menu(m, n, seed, cap, content='db', pairs=False, multi=False, terms=True):
    """default menu: palette content rows + every split / join / single termination enabled in state m"""
    rows = [(k, content_row(m, k, n, seed)) for k in content]
    rows += split_rows(m, cap, pairs) + join_rows(m, multi) + mixed_rows(m, cap)
    if terms:
        rows += term_rows(m)
    return rows


def walk(headers, depth, seed, cap, menu, visit, prefix=(), pre=()):
    """visit(hist) for every enabled sequence extending prefix by at most `depth` rows (prefix itself included)"""
    def rec(hist, d):
        visit(hist)
        if d == 0:
            return
        m = build(headers, hist, pre, close=False)
        if m.width() == 0:
            return
        n = len(hist)
        for _, row in menu(m, n, seed, cap):
            rec(hist + [row], d - 1)
    rec(list(prefix), depth)


def walk_jobs(headers, depth, seed, cap, menu, split_at=2, pre=()):
    """prefixes of length split_at (and shorter terminal ones) so that the walk can be distributed: [(prefix, remaining_depth, visit_prefix_itself)]"""
    jobs = []
    shorter = []

    def rec(hist, d):
        if len(hist) == split_at or d == 0:
            jobs.append((list(hist), d))
            return
        shorter.append(list(hist))
        m = build(headers, hist, pre, close=False)
        if m.width() == 0:
            return
        for _, row in menu(m, len(hist), seed, cap):
            rec(hist + [row], d - 1)
    rec([], depth)
    return shorter, jobs


def hist_from_json(hist):
    """histories recorded in replay files: global-comment rows come back as ['g', text] lists"""
    out = []
    for r in hist:
        if len(r) == 2 and r[0] == 'g' and isinstance(r[1], str):
            out.append(('g', r[1]))
        else:
            out.append([dict(s) for s in r])
    return out
