"""Shared document spaces (DESIGN §3 C01/C03): paths over the row alphabet and deviations from a backbone.
A document is described by (headers, seq, seed[, pre]) and materialised with explore.seq_model()."""
import itertools

from . import alphabet as A
from . import explore as X

PATH_SYMS = ['d', 'i', 'c', 'b', 'z', 'S0', 'J0', 'S1', 'g', 'Y0']
BACKBONE = ['i', 'i', 'b', 'd', 'd', 'b', 'd', 'b', 'd', 'b']
DEV_MENU = ['d', 'i', 'c', 'z', 'n', 'b', 'S0', 'J0', 'S1', 'J1', 'X0', 'g', 'Y0']


def path_docs(headers_list, depth, seeds=(0,), syms=None):
    """all symbol sequences of length 1..depth (enabledness is decided when the model is built)"""
    syms = syms or PATH_SYMS
    for h in headers_list:
        for seq in X.all_seqs(syms, depth):
            for sd in seeds:
                yield (h, list(seq), sd)


def edits(backbone, menu):
    out = []
    for pos in range(len(backbone) + 1):
        for s in menu:
            out.append(('ins', pos, s))
    for pos in range(len(backbone)):
        out.append(('del', pos, None))
    return out


def apply_edits(backbone, es):
    """apply a set of edits given against backbone positions; inserts at the same position keep menu order"""
    ins = {}
    dele = set()
    for kind, pos, s in es:
        if kind == 'ins':
            ins.setdefault(pos, []).append(s)
        else:
            dele.add(pos)
    out = []
    for i in range(len(backbone) + 1):
        out += ins.get(i, [])
        if i < len(backbone) and i not in dele:
            out.append(backbone[i])
    return out


def deviation_docs(headers_list, k, seeds=(0,), backbone=None, menu=None):
    backbone = backbone or BACKBONE
    menu = menu or DEV_MENU
    E = edits(backbone, menu)
    for h in headers_list:
        for n in range(0, k + 1):
            for es in itertools.combinations(E, n):
                seq = apply_edits(backbone, es)
                for sd in seeds:
                    yield (h, seq, sd)


def materialise(job, cap=6, with_key=False, pre=()):
    h, seq, sd = job[:3]
    if list(seq) == ['GIANT']:      # the one very large document (giant_model below), addressed like any other (headers, seq, seed) job
        return giant_model(sd, headers=tuple(h))
    if list(seq) == ['SIGNATURES']:
        return many_signatures_model(sd)
    if list(seq) == ['DISTINCT']:
        return distinct_single_model(sd)
    if list(seq[:1]) == ['ALIGNED']:
        return aligned_model(sd, total=int(seq[1]), headers=tuple(h))
    if list(seq[:1]) == ['GIANT']:
        return giant_model(sd, rows=int(seq[1]), headers=tuple(h), comments=(list(seq[2:3]) != ['nocomments']))
    return X.seq_model(h, seq, sd, cap=cap, pre=pre, with_key=with_key)


def features(m):
    """structural features used by the non-triviality rules"""
    f = set()
    for k, r in m.rows:
        if k == 'g':
            f.add('gcomment')
            continue
        srcs = [c.src for c in r]
        if '*^' in srcs:
            f.add('split')
        if '*v' in srcs:
            f.add('join')
        if all(s in A.NULLS for s in srcs):
            f.add('nullrow')
        for c in r:
            if c.spec['k'] == 'c':
                f.add('chord')
            if c.spec['k'] == 'n':
                f.add('note')
    if len(set(m.headers)) > 1:
        f.add('types2')
    return f


# long documents: far beyond the depth bounds of the exhaustive spaces (defects that need many rows / measures / two-digit stage numbers)
LONG_UNIT = ['d', 'd', 'S0', 'd', 'c', 'J0', 'b', 'i', 'd', 'z', 'b']


def long_docs(seed, reps=(6, 11)):
    out = []
    for h in (['**kern'], ['**kern', '**text'], ['**text', '**kern', '**kern'], ['**kern', '**dynam', '**kern', '**harm']):
        for r in reps:
            out.append((h, ['k', 'b'] + LONG_UNIT * r, seed))
    return out


def long_kern_docs(seed, reps=(5, 9)):
    """kern-only long documents with uniform signature rows (C07 / C08 / C19)"""
    unit = ['d', 'd', 'b', 'S0', 'd', 'J0', 'd', 'b', 'K', 'd', 'b', 'T', 'k', 'd']
    out = []
    for h in (['**kern'], ['**kern', '**kern']):
        for r in reps:
            out.append((h, ['k', 'b'] + unit * r + ['b'], seed))
    return out


WIDE_HEADERS = ['**kern', '**text', '**kern', '**dynam', '**kern', '**harm', '**kern', '**fing', '**root', '**kern', '**mxhm', '**kern']


def wide_docs(seed):
    """twelve spines (two-digit spine ids): beyond the width bound of the exhaustive spaces"""
    return [(WIDE_HEADERS, ['k', 'i', 'b', 'd', 'd', 'S0', 'd', 'J0', 'X3', 'd', 'c', 'b', 'd', 'S9', 'd', 'b'], seed)]


def repetitive_models(seed):
    """the SAME cells over and over (60 data rows, 30 barlines): the k-th occurrence of a token, two- and three-digit stage numbers"""
    from .model import Model
    out = []
    for h in (['**kern'], ['**kern', '**text'], ['**dynam', '**kern', '**kern']):
        m = Model(h)
        m.add([A.V('*clefG2', 'CLEF') if t in A.KERN_LIKE else A.NULL_I for t in h])
        d1 = [A.data_cell(t, 1, i, seed) for i, t in enumerate(h)]
        d2 = [A.data_cell(t, 4, i, seed + 2) for i, t in enumerate(h)]
        for k in range(30):
            m.add([A.V(f'={k + 1}', 'BARLINES', '=')] * len(h))
            m.add(d1)
            m.add(d2 if k % 3 else d1)
            if k == 17:
                m.add([A.comment_cell(0, i, seed) for i in range(len(h))])
        m.add([A.V('==', 'BARLINES')] * len(h))
        out.append(m.close())
    return out


def many_distinct_model(seed):
    """several hundred DIFFERENT note encodings in two kern spines, then the early ones again (bounded caches, interning)"""
    from .model import Model
    m = Model(['**kern', '**kern', '**text'])
    m.add([A.V('*clefG2', 'CLEF'), A.V('*clefF4', 'CLEF'), A.NULL_I])
    durs = ['1', '2', '4', '8', '16', '32', '4.', '8.']
    pits = ['c', 'd', 'e', 'f', 'g', 'a', 'b', 'cc', 'dd', 'ee', 'ff', 'gg', 'aa', 'bb', 'C', 'D', 'E', 'F', 'G', 'A', 'B', 'CC', 'DD']
    notes = [A.note(d, p_, a) for d in durs for p_ in pits for a in ('', '#')]
    k = seed % 7
    rows = list(zip(notes[k::2], notes[k + 1::2]))
    for i, (x, y) in enumerate(rows[:170] + rows[:25]):
        if i % 8 == 0:
            m.add([A.V(f'={i // 8 + 1}', 'BARLINES', '=')] * 3)
        m.add([x, y, A.text_cell(A.TEXT[i % len(A.TEXT)], '**text')])
    return m.close()


# huge documents: several hundred rows, more than a hundred measures with three-digit numbers, the same split/join cycle dozens of times.
# Far beyond every enumeration bound: thresholds (64 / 100 / 128 / 256 / 512 rows or measures), chunked processing, bounded caches, k-th occurrence.
HUGE_UNIT = ['d', 'd', 'e', 'S0', 'd', 'c', 'J0', 'd', 'e', 'i', 'd', 'z', 'd', 'e', 'g']
HUGE_UNIT_KERN = ['d', 'd', 'e', 'S0', 'd', 'J0', 'd', 'e', 'K', 'd', 'd', 'e', 'k', 'd', 'e']


def huge_docs(seed, reps=45, headers=(('**kern',), ('**kern', '**text'), ('**text', '**kern', '**kern'))):
    return [(list(h), ['k', 'e'] + HUGE_UNIT * reps + ['e'], seed) for h in headers]


def huge_kern_docs(seed, reps=36, headers=(('**kern',), ('**kern', '**kern'))):
    """kern-only, uniform signature rows, 4 barlines per unit (C07 / C08 / C19): about 145 measures"""
    return [(list(h), ['k', 'e'] + HUGE_UNIT_KERN * reps + ['e'], seed) for h in headers]


def hist_of(m):
    """the rows below the header as a history for explore.build(): spec rows and ('g', text) tuples (terminator row dropped when the model is closed)"""
    hist = [('g', r) if k == 'g' else [c.spec for c in r] for k, r in m.rows[m.header_row + 1:]]
    return hist[:-1] if m.width() == 0 and hist and not isinstance(hist[-1], tuple) else hist


def giant_model(seed, rows=1500, headers=('**kern', '**kern', '**text', '**kern'), comments=True):
    """ONE very large document: ~1 900 lines, 350 numbered measures, > 4 200 DIFFERENT kern cells (then the earliest ones again), > 64 KiB of text with
    multi-byte lyrics, a split/join cycle every 97 rows, clef changes, global comments.  Thresholds it crosses: 64/100/128/256/257/512/990/1000/1024 rows, stages
    or measures; 256/512/1024/2048/4096 distinct encodings; 64 KiB; recursion depth 1 000."""
    from .model import Model
    h = list(headers)
    m = Model(h, pre=('!!!COM: Giant', '!!!OTL: beyond every bound') if comments else ())
    kcols = [i for i, t in enumerate(h) if t == '**kern']
    clefs = ['*clefG2', '*clefF4', '*clefC3', '*clefGv2', '*clefC4', '*clefF3']
    m.add([A.V(clefs[(i + seed) % len(clefs)], 'CLEF') if i in kcols else A.NULL_I for i in range(len(h))])
    m.add([A.V('*k[f#]', 'KEY_SIGNATURE') if i in kcols else A.NULL_I for i in range(len(h))])
    m.add([A.V('*M4/4', 'TIME_SIGNATURE') if i in kcols else A.NULL_I for i in range(len(h))])
    durs = ['1', '2', '4', '8', '16', '32', '64', '2.', '4.', '8.', '16.', '4..', '12', '24']
    pits = [l * k for k in (1, 2, 3, 4) for l in 'cdefgab'] + [l * k for k in (1, 2, 3, 4) for l in 'CDEFGAB']
    accs = ['', '#', '-', 'n', '##']
    sigs = [(), ('L',), ('J',), (';',), ("'",)]
    combos = [(d, p_, a, s) for s in sigs for a in accs for d in durs for p_ in pits]       # 14 700 different notes
    lyr = ['la', 'ñan', '漢字', 'dú', '𝄞x', 'lu']

    def note_at(k):
        d, p_, a, s = combos[(k * 11 + seed) % len(combos)]
        return A.note(d, p_, a, list(s))
    k = 0
    first_rows = []
    for r in range(rows):
        w = m.width()
        if r % 4 == 0:
            m.add([A.V(f'={r // 4 + 1}', 'BARLINES', '=')] * w)
        if r % 97 == 50 and w >= len(h) - 1 and w <= len(h):
            m.add([A.SPLIT if i == 0 else A.NULL_I for i in range(w)])
            w = m.width()
        if r % 97 == 60 and len(set(m.spines()[:2])) == 1 and w >= 2:
            m.add([A.JOIN if i in (0, 1) else A.NULL_I for i in range(w)])
            w = m.width()
        if r == rows - 150 and w == len(h) == 2:
            m.add([A.NULL_I, A.TERM])       # two kern spines: the second one ends early, the first goes on for 150 rows
            w = m.width()
        if r % 211 == 100 and comments:
            m.add_g(f'!!!ONB: comment {r}')
        if r % 173 == 90:
            types = m.types()
            m.add([A.V(clefs[(r + i) % len(clefs)], 'CLEF') if types[i] == '**kern' else A.NULL_I for i in range(w)])
        types = m.types()
        row = []
        for i, t in enumerate(types):
            if t == '**kern':
                row.append(note_at(k))
                k += 1
            else:
                row.append(A.text_cell(f'{lyr[(r + i) % len(lyr)]}{r}{lyr[(r + i + 1) % len(lyr)] * 3}', t))
        if r < 30:
            first_rows.append(row)
        m.add(row)
    # the earliest rows once more: whatever was remembered about them (and evicted since) is asked for again
    if m.width() == len(h) and len(h) != 2:
        m.add([A.V(clefs[(i + seed) % len(clefs)], 'CLEF') if i in kcols else A.NULL_I for i in range(len(h))])     # the clefs of the beginning again
        for row in first_rows:
            m.add(row)
    m.add([A.V('==', 'BARLINES')] * m.width())
    return m.close()


GIANT_HEADERS = ['**kern', '**kern', '**text', '**kern']


def giant_jobs(seed, kern_only=False):
    return [(['**kern', '**kern'] if kern_only else list(GIANT_HEADERS), ['GIANT'], seed)]


def aligned_model(seed, total=1100, headers=('**kern', '**text', '**kern')):
    """a document whose RARE rows sit exactly on power-of-two line numbers (+ seed % 3 - 1): a split at line 2^k - 1, the join two lines later, then a lone key
    signature; a lone time signature at 3 * 2^(k-1); a lone field comment at 2^k + 4; the terminator row is line `total` exactly.  For block / chunk /
    page boundaries (64, 128, 256, 512, 1024) in importers, exporters and indexes."""
    from .model import Model
    h = list(headers)
    m = Model(h)
    off = seed % 3 - 1
    special = {}
    for k in range(5, 11):
        p = 2 ** k
        special[p - 1 + off] = 'split'
        special[p + 1 + off] = 'join'
        special[p + 2 + off] = 'key'
        special[p + 4 + off] = 'comment'
        special[3 * p // 2 + off] = 'time'
    m.add([A.V('*clefG2', 'CLEF') if t == '**kern' else A.NULL_I for t in h])       # line 2
    n = 0
    while len(m.rows) < total - 2:
        line = len(m.rows) + 1          # 1-based number of the line about to be written
        w = m.width()
        types = m.types()
        what = special.get(line)
        if what == 'split' and w == len(h):
            m.add([A.SPLIT if i == 0 else A.NULL_I for i in range(w)])
        elif what == 'join' and w > len(h):
            m.add([A.JOIN if i in (0, 1) else A.NULL_I for i in range(w)])
        elif what == 'key':
            last = max(i for i, t in enumerate(types) if t == '**kern')
            m.add([A.V('*k[b-e-]', 'KEY_SIGNATURE') if i == last else A.NULL_I for i in range(w)])
        elif what == 'time':
            m.add([A.V('*M3/4', 'TIME_SIGNATURE') if i == 0 else A.NULL_I for i in range(w)])
        elif what == 'comment':
            m.add([A.V('!only here', 'FIELD_COMMENTS') if i == 0 else A.V('!', 'FIELD_COMMENTS') for i in range(w)])
        elif line % 5 == 0 and w == len(h):
            m.add([A.V(f'={line // 5}', 'BARLINES', '=')] * w)
        else:
            m.add([A.data_cell(t, n, i, seed) for i, t in enumerate(types)])
            n += 1
    if m.width() > len(h):
        m.add([A.JOIN if i in (0, 1) else A.NULL_I for i in range(m.width())])
    else:
        m.add([A.V('==', 'BARLINES')] * m.width())
    m.close()
    assert len(m.rows) == total, (len(m.rows), total)
    return m


ALIGNED_HEADERS = ['**kern', '**text', '**kern']


def aligned_jobs(seed, totals=(128, 256, 1100)):
    return [(list(ALIGNED_HEADERS), ['ALIGNED', str(t)], seed + k) for k, t in enumerate(totals)]


def distinct_single_model(seed, n=4300):
    """ONE kern spine under ONE clef: n different notes, a barline every 16 rows, then the first 60 rows again (bounded caches of up to 4 096 entries that keep evicted keys)"""
    from .model import Model
    m = Model(['**kern'])
    m.add([A.V('*clefF4', 'CLEF')])
    durs = ['1', '2', '4', '8', '16', '32', '64', '2.', '4.', '8.', '16.', '4..', '12', '24']
    pits = [l * k for k in (1, 2, 3, 4) for l in 'cdefgab'] + [l * k for k in (1, 2, 3, 4) for l in 'CDEFGAB']
    combos = [(d, p_, a, s) for s in ((), ('L',), ('J',)) for a in ('', '#', '-') for d in durs for p_ in pits]      # 7 056 different notes
    rows = [[A.note(*combos[(k * 13 + seed) % len(combos)][:3], list(combos[(k * 13 + seed) % len(combos)][3]))] for k in range(n)]
    for k, r in enumerate(rows + rows[:60]):
        if k % 16 == 0:
            m.add([A.V(f'={k // 16 + 1}', 'BARLINES', '=')])
        m.add(r)
    return m.close()


def many_signatures_model(seed, changes=90):
    """two kern spines: the first changes its clef (and, every third time, its key or time signature) `changes` times, the second keeps the clef of the beginning -
    more signature tokens along one path, and more clef tokens in one export, than any bounded cache or layered lookup of 64 entries holds"""
    from .model import Model
    m = Model(['**kern', '**kern'])
    clefs = ['*clefG2', '*clefF4', '*clefC3', '*clefC4', '*clefGv2']
    m.add([A.V(clefs[seed % 5], 'CLEF'), A.V('*clefF4', 'CLEF')])
    pits = ['c', 'e', 'g', 'BB', 'dd', 'F', 'a', 'CC']
    for i in range(changes):
        sig = A.V(clefs[(i + seed + 1) % 5], 'CLEF')
        m.add([sig, A.NULL_I])
        if i % 3 == 1:
            m.add([A.V(['*k[f#]', '*k[b-]', '*k[]'][i % 3], 'KEY_SIGNATURE'), A.NULL_I])
        if i % 3 == 2:
            m.add([A.V(['*M4/4', '*M3/4'][i % 2], 'TIME_SIGNATURE'), A.NULL_I])
        if i % 8 == 0:
            m.add([A.V(f'={i // 8 + 1}', 'BARLINES', '=')] * 2)
        m.add([A.note('4', pits[i % 8]), A.note('8', pits[(i + 3) % 8], '#' if i % 2 else '')])
    return m.close()
