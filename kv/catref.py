"""The documented category tree, typed in by hand from README.md ("See the hierarchy as a tree").
Deliberately does not import kernpy.  Names are the enum member names."""

TREE = {
    'STRUCTURAL': {'HEADER': {}, 'SPINE_OPERATION': {}},
    'CORE': {
        'NOTE_REST': {
            'DURATION': {},
            'NOTE': {'PITCH': {}, 'DECORATION': {}, 'ALTERATION': {}},
            'REST': {},
        },
        'CHORD': {},
        'EMPTY': {},
        'ERROR': {},
    },
    'SIGNATURES': {'CLEF': {}, 'TIME_SIGNATURE': {}, 'METER_SYMBOL': {}, 'KEY_SIGNATURE': {}, 'KEY_TOKEN': {}},
    'ENGRAVED_SYMBOLS': {},
    'OTHER_CONTEXTUAL': {},
    'BARLINES': {},
    'COMMENTS': {'FIELD_COMMENTS': {}, 'LINE_COMMENTS': {}},
    'DYNAMICS': {},
    'HARMONY': {},
    'FINGERING': {},
    'LYRICS': {},
    'INSTRUMENTS': {},
    'IMAGE_ANNOTATIONS': {'BOUNDING_BOXES': {}, 'LINE_BREAK': {}},
    'OTHER': {},
    'MHXM': {},
    'ROOT': {},
}

PARENT = {}
CHILDREN = {}
DESC = {}      # name -> frozenset of the name and all its descendants
LEAVES = {}    # name -> frozenset of leaves strictly below name


def _walk(tree, parent):
    below = set()
    for k, sub in tree.items():
        assert k not in PARENT, f'{k} occurs twice'
        PARENT[k] = parent
        CHILDREN[k] = frozenset(sub)
        d = _walk(sub, k)
        DESC[k] = frozenset(d | {k})
        below |= DESC[k]
    return below


ALL = frozenset(_walk(TREE, None))
NAMES = sorted(ALL)
TOP = list(TREE)
for _k in ALL:
    LEAVES[_k] = frozenset(x for x in DESC[_k] if x != _k and not CHILDREN[x])
assert len(ALL) == 37


def closure(names):
    out = set()
    for n in names:
        out |= DESC[n]
    return frozenset(out)


def selected(include, exclude):
    """include None = everything; exclude None = nothing."""
    inc = ALL if include is None else closure(include)
    exc = frozenset() if exclude is None else closure(exclude)
    return frozenset(inc - exc)


def is_descendant_or_self(child, parent):
    return child in DESC[parent]


def parse_tree_text(text):
    """Parse the output of TokenCategory.tree() (unix-tree style) back into a nested dict of names."""
    lines = text.split('\n')
    assert lines[0].strip() == '.', lines[0]
    root = {}
    stack = [(-1, root)]
    for ln in lines[1:]:
        if not ln.strip():
            continue
        # every level is 4 characters wide: '│   ' / '    ' then '├── ' / '└── '
        idx = max(ln.find('├── '), ln.find('└── '))
        assert idx >= 0 and idx % 4 == 0, ln
        level = idx // 4
        name = ln[idx + 4:].strip()
        if name.startswith('TokenCategory.'):
            name = name[len('TokenCategory.'):]
        while stack[-1][0] >= level:
            stack.pop()
        node = {}
        assert name not in stack[-1][1], f'duplicate {name}'
        stack[-1][1][name] = node
        stack.append((level, node))
    return root
