"""Generic canonical deep snapshot by reflection (DESIGN §2.3 / C14): no field name is hard-coded."""
import enum
import hashlib
import sys
import types


def canon(roots):
    memo = {}

    def w(o):
        if o is None or isinstance(o, (bool, int, float, str, bytes)):
            return ('v', o)
        if isinstance(o, enum.Enum):
            return ('e', type(o).__name__, o.name)
        if isinstance(o, (types.FunctionType, types.BuiltinFunctionType, types.MethodType, type, types.ModuleType, classmethod, staticmethod, property)):
            return ('f', getattr(o, '__qualname__', None) or str(type(o)))
        i = id(o)
        if i in memo:
            return ('ref', memo[i])
        memo[i] = len(memo)
        if isinstance(o, (list, tuple)):
            return (type(o).__name__, tuple(w(x) for x in o))
        if isinstance(o, (set, frozenset)):
            return (type(o).__name__, tuple(sorted(repr(w(x)) for x in o)))
        if isinstance(o, dict):
            return ('dict', tuple((w(k), w(v)) for k, v in o.items()))
        d = getattr(o, '__dict__', None)
        if d is not None:
            return ('obj', type(o).__name__, tuple((k, w(v)) for k, v in sorted(d.items())))
        slots = getattr(type(o), '__slots__', None)
        if slots:
            return ('slots', type(o).__name__, tuple((k, w(getattr(o, k, None))) for k in slots))
        return ('repr', type(o).__name__)
    return tuple(w(r) for r in roots)


def digest(roots):
    return hashlib.sha256(repr(canon(roots)).encode('utf-8', 'backslashreplace')).hexdigest()[:20]


def module_roots(prefix='kernpy'):
    """every mutable module-level container and class attribute of every loaded module of the package"""
    roots = []
    for name, mod in sorted(sys.modules.items()):
        if mod is None or not (name == prefix or name.startswith(prefix + '.')) or '.generated' in name:
            continue
        for k, v in sorted(vars(mod).items()):
            if k.startswith('_'):
                continue      # private module attributes (e.g. a cache) are not "shared defaults"; their effect, if any, shows in the results
            if isinstance(v, (list, dict, set)):
                roots.append((name, k, v))
            elif isinstance(v, type) and getattr(v, '__module__', None) == name:
                for ak, av in sorted(vars(v).items()):
                    if ak.startswith('_'):
                        continue
                    if isinstance(av, (list, dict, set, int, str, float, tuple)) and not isinstance(av, bool):
                        if ak == 'NextID':
                            continue      # global node counter: consumed by imports, not by read-only calls on a document; not observable
                        roots.append((name, k, ak, av))
    return roots
