"""Shared run-time plumbing: accumulators, violations, known findings, evidence, parallel map.

Nothing here knows about a particular property.  A property driver (kv/props/cNN.py) exposes

    run(ctx)                 explore the property's space, report through ctx / Acc objects
    replay(case) -> [Viol]   re-execute one recorded case (used by --replay and by the
                             fresh-process confirmation of every reported violation)
"""
from __future__ import annotations

import hashlib
import json
import multiprocessing as mp
import os
import re
import sys
import time
import traceback

VERIF = os.path.dirname(os.path.dirname(os.path.abspath(__file__)))
KNOWN_FILE = os.path.join(VERIF, 'KNOWN_FINDINGS.txt')
NWORKERS = int(os.environ.get('VERIF_WORKERS', '16'))


def digest(obj) -> str:
    return hashlib.sha256(repr(obj).encode('utf-8', 'backslashreplace')).hexdigest()[:16]


def h64(obj) -> int:
    return int.from_bytes(hashlib.blake2b(repr(obj).encode('utf-8', 'backslashreplace'), digest_size=8).digest(), 'big')


def jsonable(o):
    """Best-effort conversion of a case / observation into JSON-serialisable data."""
    if o is None or isinstance(o, (bool, int, float, str)):
        return o
    if isinstance(o, (list, tuple)):
        return [jsonable(x) for x in o]
    if isinstance(o, (set, frozenset)):
        return sorted((jsonable(x) for x in o), key=repr)
    if isinstance(o, dict):
        return {str(k): jsonable(v) for k, v in o.items()}
    name = getattr(o, 'name', None)
    if name is not None and o.__class__.__module__.startswith('kernpy'):
        return f'{o.__class__.__name__}.{name}'
    return repr(o)


class Viol(dict):
    """One violating case.  cls = class of the *case* (a predicate over the model's description of it),
    symptom = normalised description of how it fails; both are matched against KNOWN_FINDINGS.txt."""

    def __init__(self, cls, symptom, case, expected=None, observed=None, note=''):
        super().__init__(cls=cls, symptom=symptom, case=jsonable(case), expected=jsonable(expected),
                         observed=jsonable(observed), note=note)


class Acc:
    """Per-worker accumulator; plain data so that it crosses process boundaries."""
    MAXV = 40  # violations kept per worker job (counted beyond)

    def __init__(self):
        self.n = {}            # named counters
        self.viol = []         # Viol dicts (capped)
        self.nviol = 0
        self.vkeys = {}        # (cls,symptom) -> count
        self.nontrivial = set()
        self.outcomes = set()
        self.states = set()
        self.samples = []
        self.caps = []

    def count(self, key, k=1):
        self.n[key] = self.n.get(key, 0) + k

    def nontriv(self, case):
        self.nontrivial.add(h64(case))

    def outcome(self, obs):
        self.outcomes.add(h64(obs))

    def state(self, st):
        self.states.add(h64(st))

    def sample(self, s, cap=3):
        if len(self.samples) < cap:
            self.samples.append(jsonable(s))

    def violation(self, v: Viol):
        self.nviol += 1
        k = (v['cls'], v['symptom'])
        c = self.vkeys.get(k, 0)
        self.vkeys[k] = c + 1
        if c < 3 and len(self.viol) < self.MAXV:   # keep up to 3 examples per (class, symptom)
            self.viol.append(dict(v))

    def unlisted(self, prop):
        """number of violations recorded so far whose (class, symptom) is not a listed finding of this property: exploration of an UNBOUNDED
        space may stop once this is positive (the verdict is decided and, on changed code, implementation states need not merge any more)"""
        known = {(f['cls'], f['symptom']) for f in load_known()[0] if f['property'] == prop}
        return sum(c for k, c in self.vkeys.items() if tuple(k) not in known)

    def dump(self):
        return {'n': self.n, 'viol': self.viol, 'nviol': self.nviol, 'vkeys': list(self.vkeys.items()),
                'nontrivial': self.nontrivial, 'outcomes': self.outcomes, 'states': self.states,
                'samples': self.samples, 'caps': self.caps}


class Ctx(Acc):
    """Accumulator of the whole run + evidence fields."""

    def __init__(self, prop, tier, seed):
        super().__init__()
        self.prop, self.tier, self.seed = prop, tier, seed
        self.bounds = {}
        self.assumptions = []
        self.rule = ''
        self.exhaustive = True
        self.extra = {}
        self.t0 = time.time()

    @property
    def quick(self):
        return self.tier == 'quick'

    def merge(self, d):
        if isinstance(d, Acc):
            d = d.dump()
        for k, v in d['n'].items():
            self.count(k, v)
        self.nviol += d['nviol']
        for k, c in d['vkeys']:
            k = tuple(k)
            have = self.vkeys.get(k, 0)
            self.vkeys[k] = have + c
        for v in d['viol']:
            k = (v['cls'], v['symptom'])
            kept = sum(1 for x in self.viol if (x['cls'], x['symptom']) == k)
            if kept < 3:
                self.viol.append(v)
        self.nontrivial |= d['nontrivial']
        self.outcomes |= d['outcomes']
        self.states |= d['states']
        for s in d['samples']:
            if len(self.samples) < 6:
                self.samples.append(s)
        self.caps += d['caps']

    def pmap(self, fn, jobs, chunksize=None, workers=None):
        """Run fn(job) -> Acc.dump() over jobs on all cores and merge the results."""
        jobs = list(jobs)
        if not jobs:
            return
        workers = min(workers or NWORKERS, len(jobs))
        if workers <= 1:
            for j in jobs:
                self.merge(_guard(fn, j))
            return
        if chunksize is None:
            chunksize = max(1, len(jobs) // (workers * 8))
        with mp.get_context('fork').Pool(workers) as pool:
            for d in pool.imap_unordered(_Guarded(fn), jobs, chunksize=chunksize):
                self.merge(d)


class HarnessError(Exception):
    pass


class _Guarded:
    def __init__(self, fn):
        self.fn = fn

    def __call__(self, job):
        return _guard(self.fn, job)


class _JobTimeout(BaseException):
    pass


def _job_alarm(signum, frame):
    raise _JobTimeout()


JOB_TIMEOUT = int(os.environ.get('VERIF_JOB_TIMEOUT') or (1500 if os.environ.get('VERIF_TIER', 'quick') == 'quick' else 3600))   # seconds; thorough jobs are larger and the machine may be shared


def _guard(fn, job):
    import signal
    armed = False
    try:
        # a job that never returns (code under test looping on a generated input) must not hang the whole check
        signal.signal(signal.SIGALRM, _job_alarm)
        signal.alarm(JOB_TIMEOUT)
        armed = True
    except Exception:
        pass
    try:
        return _guard_inner(fn, job)
    except _JobTimeout:
        a = Acc()
        a.count('harness_errors')
        a.caps.append(f'HARNESS-ERROR in worker: job did not finish within {JOB_TIMEOUT} s: {fn.__name__} job=' + repr(job)[:300])
        return a.dump()
    finally:
        if armed:
            signal.alarm(0)


def _guard_inner(fn, job):
    try:
        r = fn(job)
        d = r.dump() if isinstance(r, Acc) else r
        # remember which job produced each violation: a violation that depends on what the same process did before (a cache, shared state)
        # cannot be reproduced from the single case, but re-running the whole job in a fresh process can (run.py --replay falls back to that)
        acc_d = d.get('acc') if isinstance(d, dict) and 'acc' in d and 'viol' not in d else d
        try:
            for v in acc_d.get('viol', []):
                v.setdefault('job_fn', getattr(fn, '__name__', None))
                v.setdefault('job', jsonable(job))
        except Exception:
            pass
        return d
    except Exception as e:
        a = Acc()
        tb = traceback.extract_tb(e.__traceback__)
        src = os.path.abspath(os.environ.get('KERNPY_SRC', '/repo')) + os.sep
        here = os.path.dirname(os.path.dirname(os.path.abspath(__file__))) + os.sep
        lib_frames = [f for f in tb if os.path.abspath(f.filename).startswith(src)]
        inner = os.path.abspath(tb[-1].filename) if tb else ''
        if lib_frames and (inner.startswith(src) or not inner.startswith(here)):
            # the exception was raised INSIDE the library (or below it) by a call that never raises on the delivered tree: that is an observation
            # about the library, not a crash of the harness.  It is reported as a violation whose replay re-runs this job.
            hf = [f for f in tb if os.path.abspath(f.filename).startswith(here)]
            a.count('evaluations')
            a.violation(Viol('unexpected-exception', type(e).__name__ + '-raised-inside-kernpy',
                             {'job_fn': getattr(fn, '__name__', None), 'job': jsonable(job), 'harness_frame': f'{os.path.basename(hf[-1].filename)}:{hf[-1].lineno}' if hf else None,
                              'library_frame': f'{os.path.relpath(lib_frames[-1].filename, src)}:{lib_frames[-1].lineno} in {lib_frames[-1].name}'},
                             'no exception (this call does not raise on the delivered library)', f'{type(e).__name__}: {str(e)[:200]}'))
            for v in a.viol:
                v.setdefault('job_fn', getattr(fn, '__name__', None))
                v.setdefault('job', jsonable(job))
            return a.dump()
        # a crash of the harness itself must never look like a verdict
        a.count('harness_errors')
        a.caps.append('HARNESS-ERROR in worker: ' + traceback.format_exc()[-1500:] + ' job=' + repr(job)[:300])
        return a.dump()


# ----------------------------------------------------------------------------------------------
# known findings

_FIND_RX = re.compile(r'^finding:\s+property=(C\d+)\s+class=(\S+)\s+symptom=(\S+)\s+::\s*(.*)$')
_FIXED_RX = re.compile(r'^fixed:\s+property=(C\d+)\s+(\S+)\s+(.*)$')


def load_known(path=KNOWN_FILE):
    findings, fixed = [], []
    if not os.path.exists(path):
        return findings, fixed
    for line in open(path, encoding='utf-8'):
        line = line.rstrip('\n')
        m = _FIND_RX.match(line)
        if m:
            findings.append({'property': m.group(1), 'cls': m.group(2), 'symptom': m.group(3), 'what': m.group(4)})
            continue
        m = _FIXED_RX.match(line)
        if m:
            fixed.append({'property': m.group(1), 'commit': m.group(2), 'what': m.group(3)})
    return findings, fixed


def revive(o):
    """inverse of jsonable() for job descriptions: ['g', text] rows of a history become tuples again"""
    if isinstance(o, list):
        if len(o) == 2 and o[0] == 'g' and isinstance(o[1], str):
            return ('g', o[1])
        return [revive(x) for x in o]
    if isinstance(o, dict):
        return {k: revive(v) for k, v in o.items()}
    return o


def slug(s, n=60):
    s = re.sub(r'[^A-Za-z0-9]+', '-', str(s)).strip('-').lower()
    return s[:n] or 'x'


# ----------------------------------------------------------------------------------------------
# evidence

def write_evidence(ctx: Ctx, violations_unlisted: int, known_seen, path):
    transitions = ctx.n.get('transitions', 0)
    cov = {
        'states': max(1, len(ctx.states)) if ctx.states else max(1, ctx.n.get('states', 0)),
        'transitions': max(1, transitions) if transitions else max(1, ctx.n.get('evaluations', 0)),
        'traces_validated_against_impl': ctx.n.get('traces', 0),
        'evaluations': ctx.n.get('evaluations', 0),
        'distinct_nontrivial': len(ctx.nontrivial),
        'rule': ctx.rule,
        'distinct_outcomes': len(ctx.outcomes),
        'samples': ctx.samples[:6] or ['(no sample recorded)'],
        'exhaustive': bool(ctx.exhaustive and not ctx.caps),
        'bounds': ctx.bounds,
        'caps_hit': ctx.caps[:10],
        'counters': {k: v for k, v in sorted(ctx.n.items())},
        'violation_classes_seen': [{'class': k[0], 'symptom': k[1], 'count': c} for k, c in sorted(ctx.vkeys.items())],
        'known_findings_seen': known_seen,
    }
    cov.update(ctx.extra)
    ev = {
        'property_id': ctx.prop,
        'tier': ctx.tier,
        'seed': ctx.seed,
        'level': 'model_checking',
        'coverage': cov,
        'assumptions': ctx.assumptions,
        'wall_s': round(time.time() - ctx.t0, 2),
        'violations': violations_unlisted,
    }
    os.makedirs(os.path.dirname(path), exist_ok=True)
    tmp = path + '.tmp'
    with open(tmp, 'w', encoding='utf-8') as f:
        json.dump(ev, f, indent=1, ensure_ascii=False, default=repr)
        f.write('\n')
    os.replace(tmp, path)
    return ev
