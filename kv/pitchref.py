"""Independent pitch arithmetic: letters as Z7 with octave carry, semitones from the C-major table,
intervals from their *names*.  Does not import kernpy and knows nothing about base 40."""

LETTERS = 'CDEFGAB'
SEMI = {'C': 0, 'D': 2, 'E': 4, 'F': 5, 'G': 7, 'A': 9, 'B': 11}

# the 40 named intervals the property speaks of: qualities x numbers 1..7 plus the octave
INTERVAL_NAMES = (
    [q + str(n) for n in (1, 4, 5) for q in ('dd', 'd', 'P', 'A', 'AA')]
    + [q + str(n) for n in (2, 3, 6, 7) for q in ('dd', 'd', 'm', 'M', 'A', 'AA')]
    + ['octave']
)
assert len(INTERVAL_NAMES) == 40


def interval(name):
    """(diatonic steps, semitones) of a named interval."""
    if name == 'octave':
        return 7, 12
    q = name.rstrip('0123456789')
    n = int(name[len(q):])
    base = {1: 0, 2: 2, 3: 4, 4: 5, 5: 7, 6: 9, 7: 11}[n]
    if n in (1, 4, 5):
        off = {'dd': -2, 'd': -1, 'P': 0, 'A': 1, 'AA': 2}[q]
    else:
        off = {'dd': -3, 'd': -2, 'm': -1, 'M': 0, 'A': 1, 'AA': 2}[q]
    return n - 1, base + off


def spell(letter, alt, octave):
    """(letter 'C'..'B', alteration int, scientific octave) -> Humdrum spelling; octave 4 = 'c', 3 = 'C'."""
    body = letter.lower() * (octave - 3) if octave >= 4 else letter.upper() * (4 - octave)
    return body + ('#' * alt if alt > 0 else '-' * (-alt))


def parse(s):
    """Humdrum spelling -> (letter, alteration, octave); raises ValueError when s is not a plain spelling."""
    body = s.rstrip('#-')
    acc = s[len(body):]
    if not body or len(set(body)) != 1 or body[0].upper() not in LETTERS or len(set(acc)) > 1:
        raise ValueError(f'not a pitch spelling: {s!r}')
    alt = len(acc) if acc.startswith('#') else -len(acc)
    l = body[0]
    octave = 3 + len(body) if l.islower() else 4 - len(body)
    return l.upper(), alt, octave


def transpose(p, name, direction):
    """p = (letter, alt, octave); returns the exact (letter, alt, octave), alt possibly beyond +-2."""
    l, alt, o = p
    steps, semis = interval(name)
    sg = 1 if direction == 'up' else -1
    li = LETTERS.index(l) + sg * steps
    nl = LETTERS[li % 7]
    no = o + li // 7
    nalt = (12 * o + SEMI[l] + alt + sg * semis) - (12 * no + SEMI[nl])
    return nl, nalt, no


def staff_steps(letter, octave):
    return octave * 7 + LETTERS.index(letter)


def from_steps(st):
    o, l = divmod(st, 7)
    return LETTERS[l], o


E4_STEPS = staff_steps('E', 4)   # bottom line under a G2 clef


def agnostic(letter, octave, bottom_letter, bottom_octave):
    """Humdrum pitch letters (no accidental) occupying, under G2, the staff position that
    (letter, octave) has under a clef whose bottom line is (bottom_letter, bottom_octave)."""
    st = staff_steps(letter, octave) - staff_steps(bottom_letter, bottom_octave) + E4_STEPS
    l, o = from_steps(st)
    return spell(l, 0, o)
