"""C11 - Category algebra follows the documented tree.  Exhaustive value grids against kv/catref.py."""
import itertools

import kernpy as kp
from kernpy.core.tokens import TokenCategoryHierarchyMapper as HM

from .. import catref
from ..core import Acc, Viol

TC = kp.TokenCategory
NAMES = catref.NAMES
SETS = [()] + [(a,) for a in NAMES] + list(itertools.combinations(NAMES, 2))   # 704 sets of size <= 2


def _tc(names):
    return {TC[n] for n in names}


def _names(cats):
    return frozenset(c.name for c in cats)


def _call(fn, *a, **k):
    try:
        return ('ok', fn(*a, **k))
    except Exception as e:   # noqa
        return ('exc', type(e).__name__ + ': ' + str(e)[:80])


# ------------------------------------------------------------------------------------------------
def check_tree(acc):
    """forest shape, each member once, tree() text == documented tree, all()"""
    acc.count('evaluations')
    acc.count('transitions')
    members = {c.name for c in TC}
    if members != set(catref.ALL):
        acc.violation(Viol('enum-members', 'differs-from-documented-tree', {'q': 'members'},
                           sorted(catref.ALL), sorted(members)))
    for facade, fn in (('TokenCategory', TC.tree), ('Mapper', HM.tree)):
        r = _call(fn)
        acc.count('transitions')
        ok = False
        if r[0] == 'ok':
            try:
                parsed = catref.parse_tree_text(r[1])
                ok = parsed == catref.TREE
            except (AssertionError, Exception) as e:  # noqa
                # the rendering is not the unix-tree layout any more: the property is about the hierarchy, not its print-out;
                # rebuild the forest from the public children() query instead
                acc.count('tree_text_not_parsable')
                try:
                    def build(name):
                        return {c.name: build(c.name) for c in TC.children(TC[name])}
                    kids = {c.name for n in NAMES for c in TC.children(TC[n])}
                    parsed = {n: build(n) for n in NAMES if n not in kids}
                    ok = parsed == catref.TREE
                except Exception as e2:  # noqa
                    parsed = f'unparsable: {e}; children(): {e2}'
        else:
            parsed = r[1]
        if not ok:
            acc.violation(Viol('tree-text', 'differs-from-documented-tree', {'q': 'tree', 'facade': facade},
                               'documented tree', parsed))
    for facade, fn in (('TokenCategory', TC.all), ('Mapper', HM.all)):
        r = _call(fn)
        acc.count('transitions')
        if r[0] != 'ok' or _names(r[1]) != catref.ALL or len(r[1]) != 37:
            acc.violation(Viol('all', 'differs-from-documented-tree', {'q': 'all', 'facade': facade}, 37, repr(r)[:200]))
    acc.sample({'q': 'tree', 'top_level': catref.TOP})


def check_unary(acc):
    for a in NAMES:
        exp_children = catref.CHILDREN[a]
        exp_nodes = catref.DESC[a] - {a}
        exp_leaves = catref.LEAVES[a]
        for q, exp, fns in (
            ('children', exp_children, (lambda: TC.children(TC[a]), lambda: HM.children(TC[a]))),
            ('nodes', exp_nodes, (lambda: TC.nodes(TC[a]), lambda: HM.nodes(TC[a]))),
            ('leaves', exp_leaves, (lambda: TC.leaves(TC[a]), lambda: HM.leaves(TC[a]))),
        ):
            for fi, fn in enumerate(fns):
                r = _call(fn)
                acc.count('transitions')
                acc.count('evaluations')
                acc.state(('unary', q, a))
                if exp:
                    acc.nontriv(('unary', q, a))
                got = _names(r[1]) if r[0] == 'ok' and r[1] is not None else r
                acc.outcome((q, got))
                if got != exp:
                    acc.violation(Viol(q, 'differs-from-documented-tree', {'q': q, 'target': a, 'facade': fi},
                                       sorted(exp), sorted(got) if isinstance(got, frozenset) else got))
    for a in NAMES:          # parent
        for b in NAMES:      # child
            exp = catref.is_descendant_or_self(b, a)
            for fi, fn in enumerate((lambda: TC.is_child(child=TC[b], parent=TC[a]),
                                     lambda: HM.is_child(TC[a], TC[b]))):
                r = _call(fn)
                acc.count('transitions')
                acc.count('evaluations')
                acc.state(('is_child', a, b))
                if exp and a != b:
                    acc.nontriv(('is_child', a, b))
                got = bool(r[1]) if r[0] == 'ok' else r
                acc.outcome(('is_child', got))
                if got != exp:
                    cls = 'is_child'
                    acc.violation(Viol(cls, 'differs-from-documented-tree', {'q': 'is_child', 'parent': a, 'child': b, 'facade': fi}, exp, got))
    acc.sample({'q': 'is_child', 'parent': 'NOTE_REST', 'child': 'PITCH', 'expected': True})


def _valid_job(job):
    """one include set (or None) against every exclude set; argument container shapes rotate"""
    ii, tier = job
    acc = Acc()
    inc = None if ii < 0 else SETS[ii]
    exp_inc = catref.ALL if inc is None else catref.closure(inc)
    shapes = (set, list, tuple, frozenset)
    for ei, exc in enumerate([None] + SETS):
        exp = exp_inc - (catref.closure(exc) if exc else frozenset())
        def fresh(shape=set):
            # fresh argument objects for every call: a callee that modifies its arguments must not confuse the harness (C14 reports such a callee)
            kw_ = {}
            if inc is not None:
                kw_['include'] = shape(sorted(_tc(inc))) if shape is not set else _tc(inc)
            if exc is not None:
                kw_['exclude'] = shape(sorted(_tc(exc))) if shape is not set else _tc(exc)
            return kw_
        r = _call(TC.valid, **fresh())
        acc.count('transitions')
        acc.count('evaluations')
        acc.state(('valid', inc, exc))
        if inc is not None and exc and exp and exp != exp_inc:
            acc.nontriv(('valid', inc, exc))
        got = _names(r[1]) if r[0] == 'ok' else r
        acc.outcome(got)
        if got != exp:
            acc.violation(Viol('valid', 'differs-from-documented-tree', {'q': 'valid', 'include': inc, 'exclude': exc},
                               sorted(exp), sorted(got) if isinstance(got, frozenset) else got))
        # the mapper facade and other argument containers: on a rotating quarter of the grid (quick) / all (thorough)
        if tier == 'thorough' or (ii + ei) % 4 == 0:
            for shape in (list, tuple):
                r2 = _call(HM.valid, **fresh(shape))
                acc.count('transitions')
                got2 = _names(r2[1]) if r2[0] == 'ok' else r2
                if got2 != exp:
                    acc.violation(Viol('valid', 'differs-from-documented-tree',
                                       {'q': 'valid', 'include': inc, 'exclude': exc, 'shape': shape.__name__, 'facade': 'Mapper'},
                                       sorted(exp), sorted(got2) if isinstance(got2, frozenset) else got2))
            # bare single value arguments
            if (inc is None or len(inc) == 1) and (exc is None or len(exc) == 1):
                kw3 = {k: next(iter(v)) for k, v in fresh().items()}
                r3 = _call(TC.valid, **kw3)
                acc.count('transitions')
                got3 = _names(r3[1]) if r3[0] == 'ok' else r3
                if got3 != exp:
                    acc.violation(Viol('valid', 'differs-from-documented-tree',
                                       {'q': 'valid', 'include': inc, 'exclude': exc, 'shape': 'bare'}, sorted(exp), repr(got3)[:200]))
        # match: every target for |include| <= 1 (quick: |exclude| <= 1 or rotating eighth; thorough: all)
        if inc is None or len(inc) <= 1 or tier == 'thorough':
            if tier == 'thorough' or exc is None or len(exc) <= 1 or (ii + ei) % 8 == 0:
                for c in NAMES:
                    expm = bool(catref.DESC[c] & exp)
                    rm = _call(TC.match, TC[c], **fresh())
                    acc.count('transitions')
                    acc.count('evaluations')
                    gotm = bool(rm[1]) if rm[0] == 'ok' else rm
                    if gotm != expm:
                        acc.violation(Viol('match', 'differs-from-documented-tree',
                                           {'q': 'match', 'target': c, 'include': inc, 'exclude': exc}, expm, gotm))
                    if (ii + ei) % 16 == 0:
                        rm2 = _call(HM.match, TC[c], **fresh(list))
                        acc.count('transitions')
                        g2 = bool(rm2[1]) if rm2[0] == 'ok' else rm2
                        if g2 != expm:
                            acc.violation(Viol('match', 'differs-from-documented-tree',
                                               {'q': 'match', 'target': c, 'include': inc, 'exclude': exc, 'facade': 'Mapper'}, expm, g2))
    if ii == 40:
        acc.sample({'q': 'valid', 'include': inc, 'exclude': SETS[100], 'expected': sorted(exp_inc - catref.closure(SETS[100]))})
    return acc


def _union_job(job):
    """all unions of top-level categories (a block of them) as include against excludes"""
    lo, hi, excs = job
    acc = Acc()
    top = catref.TOP
    for mask in range(lo, hi):
        inc = tuple(top[i] for i in range(len(top)) if mask >> i & 1)
        exp_inc = catref.closure(inc)
        for exc in excs:
            exp = exp_inc - (catref.closure(exc) if exc else frozenset())
            kw = {'include': _tc(inc)}
            if exc is not None:
                kw['exclude'] = _tc(exc)
            r = _call(TC.valid, **kw)
            acc.count('transitions')
            acc.count('evaluations')
            acc.state(('union', mask, exc))
            if len(inc) > 2:
                acc.nontriv(('union', mask, exc))
            got = _names(r[1]) if r[0] == 'ok' else r
            acc.outcome(got)
            if got != exp:
                acc.violation(Viol('valid', 'differs-from-documented-tree', {'q': 'valid', 'include': inc, 'exclude': exc},
                                   sorted(exp), sorted(got) if isinstance(got, frozenset) else got))
    return acc


def _subtree_job(job):
    """one top-level tree: include and exclude range over ALL subsets of its nodes (a block of include subsets per job); valid() and, for every
    node of the tree, match().  Categories of different trees cannot interact in the documented rule, so this settles sets of any size tree by tree."""
    root, lo, hi, tier = job
    acc = Acc()
    nodes = sorted(catref.DESC[root])
    n = len(nodes)
    closure = [0] * n                                   # bit masks of descendant-or-self
    for i, a in enumerate(nodes):
        for j, b in enumerate(nodes):
            if b in catref.DESC[a]:
                closure[i] |= 1 << j
    cats = [TC[x] for x in nodes]

    def close(mask):
        out = 0
        for i in range(n):
            if mask >> i & 1:
                out |= closure[i]
        return out

    for im in range(lo, hi):
        if tier != 'thorough' and n > 7 and bin(im).count('1') > 2 and im != (1 << n) - 1:
            continue
        inc = {cats[i] for i in range(n) if im >> i & 1}
        cin = close(im)
        for em in range(1 << n):
            exc = {cats[i] for i in range(n) if em >> i & 1}
            exp = cin & ~close(em)
            r = _call(TC.valid, include=set(inc), exclude=set(exc))
            acc.count('transitions')
            acc.count('evaluations')
            if bin(em).count('1') > 2:
                acc.nontriv(('subtree', root, im, em))
            got = r
            if r[0] == 'ok':
                try:
                    got = sum(1 << nodes.index(c.name) for c in r[1])
                except ValueError:
                    got = ('outside-the-tree', sorted(c.name for c in r[1]))
            acc.outcome((root, got if isinstance(got, int) else repr(got)))
            if got != exp:
                acc.violation(Viol('valid', 'differs-from-documented-tree',
                                   {'q': 'valid', 'include': sorted(c.name for c in inc), 'exclude': sorted(c.name for c in exc)},
                                   sorted(nodes[i] for i in range(n) if exp >> i & 1), repr(got)[:200]))
            for ti in range(n):
                expm = bool(closure[ti] & exp)
                rm = _call(TC.match, cats[ti], include=set(inc), exclude=set(exc))
                acc.count('transitions')
                gotm = bool(rm[1]) if rm[0] == 'ok' else rm
                if gotm != expm:
                    acc.violation(Viol('match', 'differs-from-documented-tree',
                                       {'q': 'match', 'target': nodes[ti], 'include': sorted(c.name for c in inc), 'exclude': sorted(c.name for c in exc)}, expm, gotm))
    return acc


def check_invalid(acc):
    """non-category members are rejected rather than silently accepted (part of 'selection' being well defined)"""
    for kw in ({'include': {'PITCH'}}, {'exclude': ['x']}, {'include': 3}):
        r = _call(TC.valid, **kw)
        acc.count('transitions')
        if r[0] == 'ok' and r[1]:
            # selecting with garbage must not yield a non-empty selection of real categories silently
            names = _names(c for c in r[1] if isinstance(c, TC))
            if names:
                acc.violation(Viol('valid-garbage', 'garbage-argument-selects-categories', {'q': 'valid', 'kw': repr(kw)}, 'exception or empty', sorted(names)))


def _history_job(job):
    """the same queries as histories: argument objects reused or edited between calls, returned sets edited by the caller"""
    lo, hi = job
    acc = Acc()
    singles = [(a,) for a in NAMES]
    for inc in singles[lo:hi]:
        a = inc[0]
        for exc in singles:
            # (1) one include object for two consecutive calls, the first one with an exclude
            for shape in (set, list):
                s_inc = shape(_tc(inc))
                e1 = _call(TC.valid, include=s_inc, exclude=_tc(exc))
                r = _call(TC.valid, include=s_inc)
                acc.count('transitions', 2)
                acc.count('evaluations')
                acc.state(('reuse', inc, exc, shape.__name__))
                acc.nontriv(('reuse', inc, exc, shape.__name__))
                got = _names(r[1]) if r[0] == 'ok' else r
                if got != catref.closure(inc):
                    acc.violation(Viol('valid-history', 'result-depends-on-an-earlier-call-with-the-same-argument-object',
                                       {'q': 'history', 'include': inc, 'exclude_of_first_call': exc, 'shape': shape.__name__}, sorted(catref.closure(inc)), sorted(got) if isinstance(got, frozenset) else got))
            # (2) the same container edited in place between two match calls
            w = set(_tc(inc))
            h = set()
            _call(TC.match, TC[exc[0]], include=w, exclude=h)
            w.add(TC[exc[0]])
            r2 = _call(TC.match, TC[exc[0]], include=w, exclude=h)
            h.add(TC[exc[0]])
            r3 = _call(TC.match, TC[exc[0]], include=w, exclude=h)
            acc.count('transitions', 3)
            exp2 = bool(catref.DESC[exc[0]] & catref.selected([a, exc[0]], None))
            exp3 = bool(catref.DESC[exc[0]] & catref.selected([a, exc[0]], [exc[0]]))
            if (r2[0] != 'ok' or bool(r2[1]) != exp2) or (r3[0] != 'ok' or bool(r3[1]) != exp3):
                acc.violation(Viol('match-history', 'ignores-that-the-argument-container-was-edited-between-calls',
                                   {'q': 'history', 'include': inc, 'added': exc}, [exp2, exp3], [r2, r3]))
        # (3) the caller edits a returned set, then asks again
        for q, fn, exp in (('nodes', lambda: TC.nodes(TC[a]), catref.DESC[a] - {a}), ('children', lambda: TC.children(TC[a]), catref.CHILDREN[a]),
                           ('leaves', lambda: TC.leaves(TC[a]), catref.LEAVES[a]), ('all', lambda: TC.all(), catref.ALL),
                           ('valid', lambda: TC.valid(include={TC[a]}), catref.DESC[a])):
            r = _call(fn)
            if r[0] == 'ok' and isinstance(r[1], set):
                r[1].add(TC[a])
                r[1].discard(next(iter(TC)))
                r[1].discard(TC['ERROR'])
                r[1].add(TC['ROOT'])
            r2 = _call(fn)
            acc.count('transitions', 2)
            got = _names(r2[1]) if r2[0] == 'ok' and r2[1] is not None else r2
            if got != exp:
                acc.violation(Viol(q + '-history', 'result-changes-after-the-caller-edited-a-returned-set', {'q': 'history', 'query': q, 'target': a}, sorted(exp), sorted(got) if isinstance(got, frozenset) else got))
        # ... and the other queries still agree with the tree afterwards
        for b in NAMES:
            r = _call(TC.is_child, child=TC[b], parent=TC[a])
            acc.count('transitions')
            if r[0] != 'ok' or bool(r[1]) != catref.is_descendant_or_self(b, a):
                acc.violation(Viol('is_child-history', 'result-changes-after-the-caller-edited-a-returned-set', {'q': 'history', 'parent': a, 'child': b}, catref.is_descendant_or_self(b, a), r))
    return acc


def run(ctx):
    ctx.rule = ('exhaustive grids: 37 categories (children/nodes/leaves), 37x37 is_child, (None + 704 sets of size<=2) x '
                '(None + 704) for valid, match over 37 targets, all 2^16 unions of top-level categories, all subsets x all subsets inside each top-level tree; '
                'non-trivial = descendant relation holds strictly / selection strictly between empty and the include closure')
    ctx.bounds = {'categories': 37, 'sets_of_size_le_2': len(SETS), 'top_level': len(catref.TOP)}
    ctx.assumptions = ['documented tree = the tree printed in README.md, transcribed by hand in kv/catref.py']
    check_tree(ctx)
    check_unary(ctx)
    ctx.pmap(_valid_job, [(i, ctx.tier) for i in range(-1, len(SETS))], chunksize=4)
    ntop = len(catref.TOP)
    singles = [None] + [(a,) for a in NAMES]
    excs = singles if not ctx.quick else [None, ('PITCH',), ('NOTE_REST',), ('COMMENTS',), ('HEADER',)]
    step = 512
    ctx.pmap(_union_job, [(lo, min(lo + step, 1 << ntop), excs) for lo in range(0, 1 << ntop, step)], chunksize=1)
    ctx.pmap(_history_job, [(lo, lo + 3) for lo in range(0, 37, 3)], chunksize=1)
    sjobs = []
    for root in catref.TOP:
        n = len(catref.DESC[root])
        if n > 1:
            blk = max(1, (1 << n) // 64)
            sjobs += [(root, lo, min(lo + blk, 1 << n), ctx.tier) for lo in range(0, 1 << n, blk)]
    ctx.pmap(_subtree_job, sjobs, chunksize=1)
    ctx.bounds['subtree_subsets'] = ('every include subset x every exclude subset of each top-level tree' if not ctx.quick else
                                    'every exclude subset x include subsets of size <= 2 (all include subsets for trees of <= 7 nodes)')
    ctx.count('traces', ctx.n.get('evaluations', 0))


def replay(case):
    acc = Acc()
    q = case.get('q')
    if q == 'history':
        d = _history_job((0, 37))
        return d.viol
    if q in ('members', 'tree', 'all'):
        check_tree(acc)
    elif q in ('children', 'nodes', 'leaves', 'is_child'):
        check_unary(acc)
        acc.viol = [v for v in acc.viol if v['case'].get('q') == q]
    else:
        inc, exc = case.get('include'), case.get('exclude')
        inc = None if inc is None else tuple(inc)
        exc = None if exc is None else tuple(exc)
        exp = catref.selected(inc, exc)
        kw = {}
        if inc is not None:
            kw['include'] = _tc(inc)
        if exc is not None:
            kw['exclude'] = _tc(exc)
        if q == 'match':
            c = case['target']
            expm = bool(catref.DESC[c] & exp)
            for fn in (TC.match, HM.match):
                rm = _call(fn, TC[c], **kw)
                gotm = bool(rm[1]) if rm[0] == 'ok' else rm
                if gotm != expm:
                    acc.violation(Viol('match', 'differs-from-documented-tree', case, expm, gotm))
        else:
            for fn in (TC.valid, HM.valid):
                for shape in (set, list, tuple):
                    r = _call(fn, **{k: shape(v) for k, v in kw.items()})
                    got = _names(r[1]) if r[0] == 'ok' else r
                    if got != exp:
                        acc.violation(Viol('valid', 'differs-from-documented-tree', case, sorted(exp), repr(got)[:200]))
    return acc.viol
