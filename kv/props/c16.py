"""C16 - Pitch spelling codec is lossless and side-effect free.
Exhaustive: 7 letters x alterations -3..+3 x octaves -1..9 (539 spellings); every ordered pair of spellings
through ONE importer and ONE exporter instance (histories of length 2), every spelling exported three times from the
same pitch object, and two long histories (all 539 spellings in sequence, forwards and backwards) per shared instance."""
import kernpy as kp

from .. import pitchref as R
from ..core import Acc, Viol

SPELL = [(l, a, o) for l in R.LETTERS for a in range(-3, 4) for o in range(-1, 10)]
TEXT = [R.spell(*p) for p in SPELL]


def triple(ap):
    name = ap.name
    return (name.replace('+', '').replace('-', '').upper(), name.count('+') - name.count('-'), ap.octave)


def snap(obj):
    """what a caller can observe of a pitch object: its public data attributes (properties included), repr and str.  Private fields are left out on
    purpose: a correctly invalidated cache inside the object is not an alteration of the pitch; a stale one is caught by the re-spell histories."""
    out = [('repr', repr(obj)), ('str', str(obj))]
    for k in dir(obj):
        if k.startswith('_'):
            continue
        try:
            v = getattr(obj, k)
        except Exception as e:  # noqa
            v = 'raises ' + type(e).__name__
        if callable(v):
            continue
        out.append((k, repr(v)))
    return tuple(out)


def imp(importer, s):
    try:
        return ('ok', triple(importer.import_pitch(s)))
    except Exception as e:  # noqa
        return ('exc', type(e).__name__ + ':' + str(e)[:60])


def exp(exporter, ap):
    try:
        return ('ok', exporter.export_pitch(ap))
    except Exception as e:  # noqa
        return ('exc', type(e).__name__ + ':' + str(e)[:60])


def mk(p):
    return kp.AgnosticPitch(p[0] + ('+' * p[1] if p[1] > 0 else '-' * -p[1]), p[2])


def check_single(acc, i):
    p, s = SPELL[i], TEXT[i]
    case = {'spelling': s}
    acc.count('evaluations')
    acc.state(('spelling', s))
    if p[1] != 0:
        acc.nontriv(s)
    r = imp(kp.HumdrumPitchImporter(), s)
    acc.count('transitions')
    if r != ('ok', p):
        acc.violation(Viol('import', 'wrong-letter-alteration-octave', case, p, r))
    r2 = imp(kp.PitchImporterFactory.create('kern'), s)
    acc.count('transitions')
    if r2 != ('ok', p):
        acc.violation(Viol('import', 'wrong-letter-alteration-octave', dict(case, via='factory'), p, r2))
    # export of a pitch object built directly from the model triple, three times on the same object
    ap = mk(p)
    before = snap(ap)
    outs = []
    ex = kp.HumdrumPitchExporter()
    for k in range(3):
        outs.append(exp(ex, ap))
        acc.count('transitions')
        after = snap(ap)
        if after != before:
            acc.violation(Viol('export', 'pitch-object-modified', dict(case, nth_export=k + 1), before, after))
            break
    acc.outcome(outs[0])
    if outs[0] != ('ok', s):
        acc.violation(Viol('export', 'wrong-spelling', case, s, outs[0]))
    if any(o != outs[0] for o in outs[1:]):
        acc.violation(Viol('export', 'repeated-export-differs', case, outs[0], outs))
    # round trip on the imported object (what transpose does), exported twice through fresh exporters
    try:
        ip = kp.HumdrumPitchImporter().import_pitch(s)
        b = snap(ip)
        o1 = exp(kp.PitchExporterFactory.create('kern'), ip)
        o2 = exp(kp.PitchExporterFactory.create('kern'), ip)
        acc.count('transitions', 2)
        if o1 != ('ok', s):
            acc.violation(Viol('roundtrip', 'export-of-import-differs', case, s, o1))
        if o2 != o1:
            acc.violation(Viol('export', 'repeated-export-differs', dict(case, via='imported object'), o1, o2))
        if snap(ip) != b:
            acc.violation(Viol('export', 'pitch-object-modified', dict(case, via='imported object'), b, snap(ip)))
    except Exception as e:  # noqa
        acc.violation(Viol('roundtrip', 'raises', case, s, repr(e)[:100]))


def _pair_job(job):
    lo, hi = job
    acc = Acc()
    for i in range(lo, hi):
        check_single(acc, i)
        # histories of length 2 through one shared importer / exporter: (i, j) for every j
        for j in range(len(SPELL)):
            importer = kp.HumdrumPitchImporter()
            exporter = kp.HumdrumPitchExporter()
            try:
                first_obj = importer.import_pitch(TEXT[i])       # keep the object the first import returned ...
            except Exception:
                first_obj = None
            r = imp(importer, TEXT[j])
            if first_obj is not None and triple(first_obj) != SPELL[i]:      # ... a later import must not rewrite it
                acc.violation(Viol('import-history', 'a-later-import-rewrites-a-pitch-returned-earlier', {'history': [TEXT[i], TEXT[j]]}, SPELL[i], triple(first_obj)))
            acc.count('transitions', 2)
            acc.count('evaluations')
            acc.state(('pair', i, j))
            if i != j:
                acc.nontriv(('pair', i, j))
            if r != ('ok', SPELL[j]):
                acc.violation(Viol('import-history', 'result-depends-on-previous-import', {'history': [TEXT[i], TEXT[j]]}, SPELL[j], r))
            pi, pj = mk(SPELL[i]), mk(SPELL[j])
            before_i = snap(pi)
            exp(exporter, pi)
            o = exp(exporter, pj)
            if snap(pi) != before_i:         # exporting another pitch through the same exporter must not touch the first object
                acc.violation(Viol('export-history', 'a-later-export-rewrites-a-pitch-exported-earlier', {'history': [TEXT[i], TEXT[j]]}, before_i, snap(pi)))
            elif j % 7 == 0 and exp(kp.HumdrumPitchExporter(), pi) != ('ok', TEXT[i]):
                acc.violation(Viol('export-history', 'a-later-export-rewrites-a-pitch-exported-earlier', {'history': [TEXT[i], TEXT[j]]}, TEXT[i], None))
            acc.count('transitions', 2)
            # the caller re-spells an object that has been exported before (public setters), then exports it again
            try:
                pj2 = mk(SPELL[j])
                pi.name, pi.octave = pj2.name, pj2.octave
                o3 = exp(kp.HumdrumPitchExporter(), pi)
                acc.count('transitions')
                if o3 != ('ok', TEXT[j]) and o == ('ok', TEXT[j]):
                    acc.violation(Viol('export-history', 'export-after-the-caller-re-spelled-an-exported-pitch-is-stale', {'history': [TEXT[i], TEXT[j]], 'respell': True}, TEXT[j], o3))
            except AttributeError:
                acc.count('no_public_setters')
            if o != ('ok', TEXT[j]):
                if exp(kp.HumdrumPitchExporter(), mk(SPELL[j])) == ('ok', TEXT[j]):
                    acc.violation(Viol('export-history', 'result-depends-on-previous-export', {'history': [TEXT[i], TEXT[j]]}, TEXT[j], o))
                else:
                    # a fresh exporter instance is wrong too: state shared between instances (or simply a wrong spelling)
                    acc.violation(Viol('export-history', 'wrong-spelling-after-other-exports-in-the-same-process', {'history': [TEXT[i], TEXT[j]]}, TEXT[j], o))
    return acc


def check_long_histories(acc):
    for order, idx in (('forward', range(len(SPELL))), ('backward', range(len(SPELL) - 1, -1, -1))):
        importer = kp.HumdrumPitchImporter()
        exporter = kp.HumdrumPitchExporter()
        for i in idx:
            r = imp(importer, TEXT[i])
            o = exp(exporter, mk(SPELL[i]))
            acc.count('transitions', 2)
            if r != ('ok', SPELL[i]):
                if imp(kp.HumdrumPitchImporter(), TEXT[i]) == ('ok', SPELL[i]):
                    acc.violation(Viol('import-history', 'result-depends-on-previous-import', {'history': order, 'at': TEXT[i]}, SPELL[i], r))
            if o != ('ok', TEXT[i]):
                if exp(kp.HumdrumPitchExporter(), mk(SPELL[i])) == ('ok', TEXT[i]):
                    acc.violation(Viol('export-history', 'result-depends-on-previous-export', {'history': order, 'at': TEXT[i]}, TEXT[i], o))
        acc.count('traces')


def run(ctx):
    ctx.rule = ('complete grid of 539 spellings; all ordered pairs through one shared importer/exporter; '
                'non-trivial = spelling with an accidental / pair of different spellings')
    ctx.bounds = {'letters': 7, 'alterations': '-3..3', 'octaves': '-1..9', 'history_length': '2 (all pairs) and 539 (two orders)'}
    ctx.assumptions = ['reference spelling <-> (letter, alteration, octave) from kv/pitchref.py']
    ctx.sample({'spelling': 'CC--', 'triple': ['C', -2, 2]})
    ctx.sample({'history': ['cc#', 'BB-'], 'expect': 'second result independent of the first'})
    check_long_histories(ctx)
    step = 8
    ctx.pmap(_pair_job, [(lo, min(lo + step, len(SPELL))) for lo in range(0, len(SPELL), step)], chunksize=1)
    ctx.count('traces', ctx.n.get('evaluations', 0))


def replay(case):
    acc = Acc()
    if 'spelling' in case:
        check_single(acc, TEXT.index(case['spelling']))
    elif isinstance(case.get('history'), list):
        i = TEXT.index(case['history'][0])
        d = _pair_job((i, i + 1))
        return [v for v in d.viol if v['cls'].endswith('history')]
    else:
        check_long_histories(acc)
    return acc.viol
