"""C02 - Import builds a spine tree that mirrors the text cell for cell.

(a) lock-step refinement: explicit-state BFS over the merged state graph of the spine-path transition system, explored to
    closure under a column cap; every transition is replayed on kernpy (import of the history's text) and the whole tree
    is compared with the model; in every reached state every row kind is also offered with one surplus cell (must raise).
(b) unmerged enumeration of ALL operator sequences up to a depth (every spine-operator layout), whole tree re-verified.
(c) literal cells: quotes, commas, spaces, non-ASCII in every column position; line count == stage count.
(d) kv/tlcspine.py: the rules once more as a TLA+ model (tla/SpinePaths.tla); TLC explores it to closure and checks the model's
    invariants, and every edge of the dumped state graph is replayed against kernpy (and against kv/model.py).
"""
import kernpy as kp

from .. import alphabet as A
from .. import explore as X
from ..core import Acc, Viol, digest
from ..model import Model, check_tree, token_encoding


def loads(text):
    return kp.loads(text)


def fingerprint(doc, fine=True):
    """implementation-side part of the merge key, read from documented Node attributes with fallbacks.
    fine=True also distinguishes the last spine operator and the signature classes each live node carries (they do not
    influence the tree C02 observes, but they are part of the importer's live state); fine=False keeps only what the
    next row's nodes are computed from (header identity and the kind of the cell above)."""
    try:
        st = doc.tree.stages[-1]
        fp = []
        for n in st:
            h = getattr(n, 'header_node', None)
            lso = getattr(n, 'last_spine_operator_node', None)
            sig = getattr(n, 'last_signature_nodes', None)
            tok = n.token
            enc = getattr(tok, 'encoding', None)
            fp.append((getattr(getattr(h, 'token', None), 'spine_id', None), getattr(getattr(h, 'token', None), 'encoding', None),
                       getattr(getattr(lso, 'token', None), 'encoding', None) if fine else None,
                       tuple(sorted(getattr(sig, 'nodes', None) or ())) if fine else None,
                       enc if enc in ('*^', '*v', '*-', '*+') else tok.__class__.__name__ == 'MetacommentToken'))
        return (tuple(fp), min(1, len(getattr(doc, 'measure_start_tree_stages', ()))))
    except Exception:   # attribute missing after a refactoring: stop merging rather than fail
        return None


def public_view(m: Model, doc):
    out = []
    ids = doc.get_spine_ids()
    if ids != list(range(len(m.headers))):
        out.append(('spine-ids', f'{ids}'))
    types = kp.spine_types(doc, m.headers + ['**kern'])   # pass the headers present: unknown types are not in the default set
    if types != m.headers:
        out.append(('spine-types', f'{types} vs {m.headers}'))
    got = [(t.encoding, t.category.name) for t in doc.get_all_tokens()]
    exp = m.dfs_order()
    if [g[0] for g in got] != [e[0] for e in exp]:
        out.append(('token-listing-cells', f'{len(got)} tokens vs {len(exp)}'))
    return out


def verify(acc, headers, hist, pre=(), label='', close=False, cls='well-formed', blank_at=None):
    """import the history's text, compare the whole tree with the model. Returns (model, doc) or (model, None)."""
    m = X.build(headers, hist, pre, close=close)
    text = m.text()
    if blank_at is not None:       # blank lines are not rows: same tree
        ls = text.split('\n')
        ls.insert(min(blank_at, len(ls) - 1), '')
        text = '\n'.join(ls)
        label += '+blank-line'
    case = {'text': text, 'headers': headers, 'via': label}
    acc.count('transitions')
    try:
        doc, errs = loads(text)
    except Exception as e:  # noqa
        acc.violation(Viol(cls, 'import-raises', case, 'document', f'{type(e).__name__}: {str(e)[:120]}'))
        return m, None
    probs = check_tree(m, doc)
    nlines = len([l for l in text.split('\n') if l != ''])
    if len(doc.tree.stages) - 1 != nlines:
        probs.append(('stage-count', f'{len(doc.tree.stages) - 1} stages, {nlines} non-empty lines'))
    probs += public_view(m, doc)
    for sym, detail in probs[:3]:
        acc.violation(Viol(cls, sym, case, 'tree mirrors the text', detail))
    return m, doc


SURPLUS = [('data', '4g'), ('null-interp', '*'), ('comment', '!x'), ('split', '*^'), ('join', '*v'), ('terminator', '*-'),
           ('header', '**kern'), ('null-data', '.'), ('barline', '=9')]


def surplus_checks(acc, m: Model, n, seed):
    """in model state m (unclosed), offer every row kind with one extra cell: the importer must raise"""
    w = m.width()
    base = m.text()
    rows = {'d': X.content_row(m, 'd', n, seed), 'n': [A.NULL_I] * w, 'c': X.content_row(m, 'c', n, seed), 'b': X.content_row(m, 'b', n, seed)} if w else {'': []}
    for rk, row in rows.items():
        for sk, cell in SURPLUS:
            if w == 0 and sk == 'header':
                continue      # a header row after every spine is terminated starts a new set of spines: not a surplus cell
            cells = [s['src'] for s in row] + [cell]
            text = base + '\t'.join(cells) + '\n'
            acc.count('transitions')
            acc.count('fault_rows')
            case = {'text': text, 'surplus': sk, 'row_kind': rk, 'live_paths': w}
            cls = 'surplus-cell-after-all-spines-terminated' if w == 0 else 'surplus-cell'
            try:
                loads(text)
            except Exception:
                acc.outcome(('surplus', 'raises'))
                continue
            acc.outcome(('surplus', 'accepted'))
            acc.violation(Viol(cls, 'accepted-silently', case, 'an exception', 'a document was returned'))


def menu(m: Model, n, seed, cap, tier):
    """enabled transitions of the lock-step exploration: (label, row) with row a list of specs or ('g', text)"""
    w = m.width()
    if w == 0:
        return [('gcomment', ('g', A.GCOMM[(n + seed) % len(A.GCOMM)]))]
    out = [('data', X.content_row(m, 'd', n, seed)),
           ('nullrow', [A.NULL_D] * w),
           ('nullinterp', [A.NULL_I] * w),
           ('clefs', [A.V(A.CLEFS[(i + seed) % 4], 'CLEF') for i in range(w)]),
           ('tandem', [A.V(['*>A', '*ped', '*MM120', '*staff1'][(i + n + seed) % 4], None) for i in range(w)]),
           ('fcomment', X.content_row(m, 'c', n, seed)),
           ('barline', X.content_row(m, 'b', n, seed)),
           ('gcomment', ('g', A.GCOMM[(n + seed) % len(A.GCOMM)]))]
    out += X.split_rows(m, cap, pairs=True)
    out += X.join_rows(m, multi=True)
    out += X.mixed_rows(m, cap)
    out += X.term_rows(m)
    out.append(('terminate-all', [A.TERM] * w))
    return out


def _expand_job(job):
    """one BFS state (given by its history): verify every outgoing transition; return successors"""
    headers, hist, depth, seed, cap, tier, fine = job
    acc = Acc()
    m0 = X.build(headers, hist, close=False)
    succ = []
    for label, row in menu(m0, depth, seed, cap, tier):
        h2 = hist + [row]
        m, doc = verify(acc, headers, h2, label=label)
        acc.count('evaluations')
        if doc is None:
            continue
        fp = fingerprint(doc, fine)
        layout = tuple(m.spines())
        key = (layout, fp) if fp is not None else ('nomerge', digest(m.text()))
        succ.append((key, h2, label))
    return {'acc': acc.dump(), 'succ': succ}


def lockstep(ctx, headers, cap, seed, fine=True):
    """BFS to closure over merged states; every state also gets the surplus-cell fault rows"""
    seen = {}
    frontier = [[]]
    m0 = Model(headers)
    acc0 = Acc()
    verify(acc0, headers, [], label='init')
    surplus_checks(acc0, m0, 0, seed)
    ctx.merge(acc0)
    seen[(tuple(range(len(headers))), 'init')] = []
    depth = 0
    import multiprocessing as mp
    from ..core import NWORKERS, _Guarded
    nstates = 1
    with mp.get_context('fork').Pool(NWORKERS) as pool:
        while frontier:
            jobs = [(headers, h, depth, seed, cap, ctx.tier, fine) for h in frontier]
            nxt = []
            for res in pool.imap(_Guarded(_expand_job), jobs, chunksize=2):
                if 'acc' not in res:       # worker crashed: res is an Acc dump with the harness error
                    ctx.merge(res)
                    continue
                ctx.merge(res['acc'])
                for key, h2, label in res['succ']:
                    if key not in seen:
                        seen[key] = h2
                        nxt.append(h2)
            # fault rows in every newly discovered state
            for d in pool.imap(_Guarded(_surplus_job), [(headers, h, depth + 1, seed) for h in nxt], chunksize=4):
                ctx.merge(d)
            nstates += len(nxt)
            frontier = nxt
            depth += 1
            if depth > 40:
                ctx.caps.append(f'lock-step BFS stopped at depth 40 for {headers}')
                break
            if depth >= 3 and ctx.unlisted('C02'):
                # the verdict is decided; with a wrong tree the implementation fingerprints need not merge any more and the graph may be unbounded
                ctx.caps.append(f'lock-step BFS for {headers} stopped after depth {depth}: violations already recorded')
                break
    ctx.count('lockstep_states', nstates)
    ctx.extra.setdefault('lockstep', []).append({'headers': headers, 'column_cap': cap, 'fine_fingerprint': fine, 'merged_states': nstates, 'bfs_depth': depth})
    for k in seen:
        ctx.state(('lockstep', tuple(headers), k))
    return seen


def _surplus_job(job):
    headers, hist, n, seed = job
    acc = Acc()
    m = X.build(headers, hist, close=False)
    surplus_checks(acc, m, n, seed)
    return acc


# ---------------------------------------------------------------------------------------------------
def _paths_job(job):
    """(b): all operator sequences with a fixed prefix; whole tree verified at the end of every path"""
    headers, prefix, depth, seed, cap = job
    acc = Acc()

    def rec(hist, d):
        m, doc = verify(acc, headers, hist, label='path', close=True)
        acc.count('evaluations')
        acc.count('traces')
        if len(hist) >= 2 and acc.n['evaluations'] % 4 == 0:
            verify(acc, headers, hist, label='path', close=True, blank_at=1 + acc.n['evaluations'] % (len(hist) + 1))
        mm = X.build(headers, hist, close=False)
        lay = tuple(mm.spines())
        acc.state(('layout', tuple(headers), lay))
        if any(r[0]['src'] in ('*^', '*v') or any(s['src'] in ('*^', '*v', '*-') for s in r) for r in hist if not isinstance(r, tuple)):
            acc.nontriv(digest(m.text()))
        if d == 0 or mm.width() == 0:
            return
        n = len(hist)
        rows = [('data', X.content_row(mm, 'd', n, seed))]
        rows += X.split_rows(mm, cap, pairs=False) + X.join_rows(mm, multi=False) + X.mixed_rows(mm, cap) + X.term_rows(mm)
        for label, row in rows:
            rec(hist + [row], d - 1)

    rec(list(prefix), depth)
    return acc


def paths(ctx, headers, depth, seed, cap):
    # split the work by the first two rows
    m0 = Model(headers)
    firsts = [('data', X.content_row(m0, 'd', 0, seed))] + X.split_rows(m0, cap) + X.join_rows(m0) + X.mixed_rows(m0, cap) + X.term_rows(m0)
    jobs = []
    a0 = Acc()
    verify(a0, headers, [], label='path', close=True)
    ctx.merge(a0)
    for _, r1 in firsts:
        m1 = X.build(headers, [r1], close=False)
        a1 = Acc()
        verify(a1, headers, [r1], label='path', close=True)
        ctx.merge(a1)
        if m1.width() == 0 or depth < 2:
            continue
        seconds = [('data', X.content_row(m1, 'd', 1, seed))] + X.split_rows(m1, cap) + X.join_rows(m1) + X.mixed_rows(m1, cap) + X.term_rows(m1)
        for _, r2 in seconds:
            jobs.append((headers, [r1, r2], depth - 2, seed, cap))
    ctx.pmap(_paths_job, jobs, chunksize=1)


# ---------------------------------------------------------------------------------------------------
LITERAL = ['qu"ote', '"quoted"', '"lead', 'trail"', 'a,b', ',', 'word with space', ' lead', 'trail ', 'ñandú', '漢字', '"', '""', '"a\tb"'.replace('\t', ' '),
           "it's", 'x;y', 'a|b', '\\n', '#', 'tab"', '\ufeffbom', 'zero\u200bwidth', '\u00a0nbsp\u00a0', 'e\u0301', '\u3000wide']


def _literal_job(job):
    headers, lo, hi, seed = job
    acc = Acc()
    for idx in range(lo, hi):
        lit = LITERAL[idx]
        for col in range(len(headers)):
            typ = headers[col]
            for pos in ('first-data-row', 'after-split', 'last-row'):
                m = Model(headers)
                w = len(headers)

                def cell(i, r):
                    t = headers[i] if i < len(headers) else None
                    if i == col:
                        if typ in A.KERN_LIKE:
                            # kern: the only literal that is also a kern token is a leading pizzicato mark
                            return A.note('4', 'c', '', ['"'], src='"4c') if typ == '**kern' else A.N('"C', [('C', 'PITCH')], ['"'])
                        return A.text_cell(lit, typ)
                    return A.data_cell(t, r, i, seed)
                if pos == 'after-split':
                    m.add([A.SPLIT if i == 0 else A.NULL_I for i in range(w)])
                    types = m.types()
                    row = []
                    tgt = col + 1 if col >= 1 else 0
                    for i, t in enumerate(types):
                        if i == tgt:
                            row.append(cell(col, 1))
                        else:
                            row.append(A.data_cell(t, 1, i, seed))
                    m.add(row)
                    m.add([A.data_cell(t, 2, i, seed) for i, t in enumerate(types)])
                else:
                    if pos == 'last-row':
                        m.add([A.data_cell(headers[i], 0, i, seed) for i in range(w)])
                    m.add([cell(i, 1) for i in range(w)])
                    if pos == 'first-data-row':
                        m.add([A.data_cell(headers[i], 2, i, seed) for i in range(w)])
                m.close()
                text = m.text()
                acc.count('transitions')
                acc.count('evaluations')
                acc.count('traces')
                acc.nontriv(digest(text))
                case = {'text': text, 'literal': lit, 'column_type': typ, 'position': pos}
                try:
                    doc, errs = loads(text)
                except Exception as e:  # noqa
                    acc.violation(Viol('literal-cell', 'import-raises', case, 'document', f'{type(e).__name__}: {str(e)[:100]}'))
                    continue
                probs = check_tree(m, doc)
                if errs:
                    probs.append(('import-errors', [e.encoding for e in errs][:3]))
                # the same text through the file reader (import_file has its own line reader)
                import os
                import tempfile
                fd, path = tempfile.mkstemp(suffix='.krn', prefix='kv02_')
                try:
                    with os.fdopen(fd, 'wb') as f:
                        f.write(text.encode('utf-8'))
                    acc.count('transitions')
                    try:
                        fdoc, ferrs = kp.load(path)
                        probs += [(s + '-when-loaded-from-a-file', d) for s, d in check_tree(m, fdoc)]
                    except Exception as e:  # noqa
                        probs.append(('import-raises-when-loaded-from-a-file', f'{type(e).__name__}: {str(e)[:80]}'))
                finally:
                    os.unlink(path)
                acc.outcome(tuple(p[0] for p in probs))
                for sym, detail in probs[:2]:
                    acc.violation(Viol('literal-cell', sym, case, 'cell text taken literally', detail))
    return acc


def _big_file_job(job):
    """the giant document read from a FILE, padded (length of a comment line before the header) so that byte offset `boundary` of the file falls INSIDE a
    multi-byte character: a reader that looks at the file in blocks, or sniffs an encoding from its head, must still take every cell literally"""
    import os
    import tempfile
    from .. import docspace as D
    seed, boundary = job
    acc = Acc()
    m = D.giant_model(seed)
    base = m.text()
    pad = None
    for k in range(0, 400):
        b = ('!!!PAD: p' + 'x' * k + '\n' + base).encode('utf-8')
        if len(b) > boundary and b[boundary] & 0xC0 == 0x80:
            pad = k
            break
    if pad is None:
        acc.caps.append(f'no padding puts byte {boundary} inside a multi-byte character')
        return acc
    m2 = D.giant_model(seed)
    m2.rows.insert(0, ('g', '!!!PAD: p' + 'x' * pad))
    m2.header_row += 1
    for k_, r in m2.rows:
        if k_ == 'c':
            for c in r:
                c.row += 1
    text = m2.text()
    case = {'text': f'(giant document, seed {seed}, padded by {pad} so that byte {boundary} is inside a character)', 'big_file': [seed, boundary]}
    fd, path = tempfile.mkstemp(suffix='.krn', prefix='kv02_')
    try:
        with os.fdopen(fd, 'wb') as f:
            f.write(text.encode('utf-8'))
        acc.count('transitions')
        acc.count('evaluations')
        acc.count('traces')
        acc.nontriv(('bigfile', seed, boundary))
        try:
            fdoc, ferrs = kp.load(path)
        except Exception as e:  # noqa
            acc.violation(Viol('literal-cell', 'import-raises-when-loaded-from-a-file', case, 'document', f'{type(e).__name__}: {str(e)[:80]}'))
            return acc
        for s, d in check_tree(m2, fdoc)[:2]:
            acc.violation(Viol('literal-cell', s + '-when-loaded-from-a-file', case, 'cell text taken literally', d))
    finally:
        os.unlink(path)
    return acc


def run(ctx):
    seed = ctx.seed
    quick = ctx.quick
    ctx.rule = ('(a) BFS to closure over merged (layout, implementation fingerprint) states, every transition replayed by importing the history; '
                '(b) every operator sequence up to the depth bound, unmerged; (c) literal cells x column x position; (d) every edge of the TLC state graph of tla/SpinePaths.tla replayed with a witness history; '
                'non-trivial = history containing a spine operator / literal needing no interpretation')
    if quick:
        lock = [(['**kern'], 4, True), (['**kern', '**text'], 5, False), (['**text', '**kern', '**kern'], 5, False)]
    else:
        lock = [(['**kern'], 5, True), (['**kern', '**text'], 4, True), (['**kern', '**kern'], 5, False), (['**dynam', '**harm'], 5, False),
                (['**zzz', '**kern'], 5, False), (['**text', '**kern', '**kern'], 6, False), (['**kern', '**text', '**kern', '**dynam'], 6, False)]
    ctx.bounds = {'lockstep': [{'headers': h, 'column_cap': c, 'fine_fingerprint': f} for h, c, f in lock],
                  'paths_depth': 4 if quick else 5, 'literal_cells': len(LITERAL)}
    ctx.assumptions = ['reference = kv/model.py SpineModel (split -> two children of the split cell; run of adjacent *v of one spine -> one path under the first cell)',
                       'rows with too few cells are outside the property (rectangular text)',
                       'a header row after all spines are terminated starts a new set of spines and is not a surplus cell']
    import os
    only = os.environ.get('VERIF_C02_PASSES')     # development knob (which passes to run); the registered commands never set it
    if only:
        ctx.caps.append(f'only passes {only} were run (VERIF_C02_PASSES)')
    for h, c, f in lock:
        if only and 'a' not in only:
            break
        lockstep(ctx, h, c, seed, f)
    # beyond the bounds: twelve spines, three and four levels of nested splits, wide joins, operators in the right-most columns
    from .. import docspace as D
    big = Acc()
    for h, seq, sd in D.wide_docs(seed) + D.huge_docs(seed + 5) + D.giant_jobs(seed) + D.aligned_jobs(seed) + [
            (['**kern', '**text', '**kern'], ['k', 'd', 'S0', 'S0', 'S0', 'd', 'S3', 'd', 'Y0', 'd', 'J0', 'J0', 'd', 'X1', 'd', 'b', 'S2', 'S3', 'd', 'J2', 'J2', 'd'], seed),
            (['**kern', '**kern'], ['d', 'S1', 'S2', 'S3', 'S4', 'd', 'J3', 'd', 'S0', 'S0', 'd', 'g', 'J0', 'J0', 'd', 'J1', 'J1', 'J1', 'd'], seed + 1),
            (['**text', '**kern', '**dynam', '**kern'], ['d', 'S3', 'S4', 'S5', 'd', 'S1', 'd', 'X0', 'd', 'J3', 'J3', 'J3', 'd', 'J0', 'd'], seed + 2),
            (['**kern', '**kern'], ['d', 'S0', 'S0', 'S0', 'S0', 'd', 'Z0', 'd', 'S3', 'd', 'J0', 'J0', 'd'], seed + 3),
            (['**kern', '**text', '**kern'], ['d', 'S2', 'S2', 'S2', 'S2', 'S2', 'd', 'W3', 'd', 'J2', 'd', 'J2', 'd'], seed + 4)]:
        m = D.materialise((h, seq, sd), cap=16)
        if m is None:
            big.caps.append(f'HARNESS-ERROR: hand-made sequence not enabled: {seq}')
            big.count('harness_errors')
            continue
        hist = [('g', r) if k == 'g' else [c.spec for c in r] for k, r in m.rows[m.header_row + 1:]]
        verify(big, h, hist[:-1] if m.width() == 0 else hist, pre=tuple(r for _k, r in m.rows[:m.header_row]), label='beyond-bounds', close=True)
        big.count('evaluations')
        big.nontriv(digest(m.text()))
    ctx.merge(big)
    ctx.pmap(_big_file_job, [(seed, b) for b in ((4096, 8192, 65536) if quick else (1024, 2048, 4096, 8192, 16384, 32768, 65536))], chunksize=1)
    hdr_paths = [['**kern'], ['**kern', '**kern'], ['**kern', '**text']] if quick else \
        [['**kern'], ['**kern', '**kern'], ['**kern', '**text'], ['**text', '**kern', '**kern'], ['**root', '**fing', '**kern']]
    for h in hdr_paths:
        if only and 'b' not in only:
            break
        paths(ctx, h, 4 if quick else 5, seed, 6)
    hdr_lit = [['**text'], ['**kern', '**text'], ['**dynam', '**kern', '**harm'], ['**fing', '**mxhm'], ['**kern', '**dyn']]
    jobs = [(h, i, i + 1, seed) for h in hdr_lit for i in range(len(LITERAL))]
    if not only or 'c' in only:
        ctx.pmap(_literal_job, jobs, chunksize=2)
    # (d) the TLA+ statement of the spine-path rules, explored by TLC; every edge of its state graph replayed against kernpy
    from .. import tlcspine
    tl = [(['**kern'], 4), (['**kern', '**kern'], 4)] if quick else [(['**kern'], 5), (['**kern', '**text'], 4), (['**kern', '**kern'], 4), (['**text', '**kern', '**kern'], 4)]
    ctx.bounds['tlc_model'] = [{'headers': h, 'column_cap': c, 'rows': 'every assignment of * / *^ / *v / *- to the columns that obeys the join rule, plus plain rows'} for h, c in tl]
    if not only or 'd' in only:
        tlcspine.run_pass(ctx, tl)
    ctx.sample({'lock-step transition': 'state [0,0,1] --join0-1--> [0,1]', 'headers': ['**kern', '**text']})
    ctx.sample({'text': X.seq_model(['**kern', '**text'], ['d', 'S0', 'd', 'J0', 'b'], seed).text()})
    ctx.count('traces', ctx.n.get('evaluations', 0))


def replay(case):
    acc = Acc()
    text = case['text']
    if 'big_file' in case:
        return _big_file_job(tuple(case['big_file'])).viol
    if 'tlc' in case:
        from .. import tlcspine
        return tlcspine.replay(case)
    if 'surplus' in case:
        try:
            loads(text)
            cls = 'surplus-cell-after-all-spines-terminated' if case.get('live_paths') == 0 else 'surplus-cell'
            acc.violation(Viol(cls, 'accepted-silently', case))
        except Exception:
            pass
        return acc.viol
    # rebuild the model from the text itself (the acceptor direction): cells are verbatim specs
    lines = [l for l in text.split('\n') if l != '']
    m = None
    pre = []
    for l in lines:
        if l.startswith('!!') and m is None:
            pre.append(l)
            continue
        cells = l.split('\t')
        if m is None:
            m = Model(cells, pre)
            continue
        if l.startswith('!!'):
            m.add_g(l)
            continue
        specs = []
        for c in cells:
            if c.startswith('=') and not c.startswith('=='):
                out = '=' + c[1:].lstrip('0123456789')
            elif c.startswith('=='):
                out = '==' + c[2:].lstrip('0123456789')
            else:
                out = c
            specs.append(A.V(c, None, out))
        m.add(specs)
    cls = 'literal-cell' if 'literal' in case else 'well-formed'
    try:
        doc, errs = loads(text)
    except Exception as e:  # noqa
        acc.violation(Viol(cls, 'import-raises', case, None, repr(e)[:100]))
        return acc.viol
    probs = check_tree(m, doc)
    probs += [p for p in public_view(m, doc) if p[0] != 'token-listing-cells'] + \
             [p for p in public_view(m, doc) if p[0] == 'token-listing-cells']
    if cls == 'literal-cell':
        import os
        import tempfile
        fd, path = tempfile.mkstemp(suffix='.krn', prefix='kv02_')
        try:
            with os.fdopen(fd, 'wb') as f:
                f.write(text.encode('utf-8'))
            try:
                fdoc, _ = kp.load(path)
                probs += [(s + '-when-loaded-from-a-file', d) for s, d in check_tree(m, fdoc)]
            except Exception as e:  # noqa
                probs.append(('import-raises-when-loaded-from-a-file', repr(e)[:80]))
        finally:
            os.unlink(path)
    if cls == 'literal-cell' and errs:
        probs.append(('import-errors', ''))
    for sym, detail in probs:
        acc.violation(Viol(cls, sym, case, None, detail))
    return acc.viol
