"""C07 - Measure ranges partition the score.
Space: every row sequence up to a length over {data, barline, null interpretation, clef row, null data, split, join} for 1-3 kern spines (optionally
next to a **text spine exported with spine_types=['**kern']) and all <=k deviations of a backbone score; for each document EVERY pair
1 <= a <= b <= M, (a, None), (None, b) and the out-of-range shapes.
Oracle: tiling of the full export by its barline rows (indifferent to whether an empty leading measure is numbered)."""
import kernpy as kp

from .. import alphabet as A
from .. import docspace as D
from .. import explore as X
from ..core import Acc, Viol, digest


def is_bar(line):
    return all(c.startswith('=') for c in line.split('\t'))


def is_data(line):
    return not any(c.startswith(('*', '!', '=')) for c in line.split('\t'))


def oracle(acc, text, case, kern_only_opts):
    kw = dict(kern_only_opts)
    try:
        doc, errs = kp.loads(text)
    except Exception as e:  # noqa
        acc.violation(Viol('well-formed', 'import-raises', case, None, repr(e)[:100]))
        return
    try:
        full = kp.dumps(doc, **kw).split('\n')[:-1]
    except Exception as e:  # noqa
        acc.violation(Viol('well-formed', 'full-export-raises', case, 'text', f'{type(e).__name__}: {str(e)[:100]}'))
        return
    acc.count('transitions', 2)
    bars = [i for i, l in enumerate(full) if is_bar(l)]
    n = len(bars)
    runs = []
    prev = -1
    for b in bars + [len(full)]:
        runs.append([l for l in full[prev + 1:b] if is_data(l)])
        prev = b
    alldata = [l for l in full if is_data(l)]
    try:
        M = doc.measures_count()
    except Exception as e:  # noqa
        if n == 0 and not alldata:
            acc.outcome('no-measures')
            return      # a score without barline and without data has no measure
        acc.violation(Viol('measure-count', 'raises-although-the-score-has-measures', case, None, repr(e)[:80]))
        return
    if list(doc) != list(range(1, M + 1)):
        acc.violation(Viol('iteration', 'does-not-yield-1-to-M', case, list(range(1, M + 1)), list(doc)))
    # two iterations alive at once, an abandoned one, and iteration again afterwards
    try:
        import itertools
        it1, it2 = iter(doc), iter(doc)
        first = next(it1)
        second_all = list(itertools.islice(it2, M + 3))
        rest = list(itertools.islice(it1, M + 3))
        import itertools
        # nested iteration with explicit step bounds (an iterator that restarts silently would make a plain nested loop run for ever WITHOUT yielding anything)
        nested, outer_steps = [], 0
        for x in doc:
            outer_steps += 1
            if outer_steps > M + 3:
                break
            inner_steps = 0
            for y in doc:
                inner_steps += 1
                if inner_steps > M + 3:
                    break
                nested.append((x, y))
        again = list(itertools.islice(iter(doc), M + 3))
        exp_all = list(range(1, M + 1))
        if first != 1 or second_all != exp_all or rest != exp_all[1:] or nested != [(x, y) for x in exp_all for y in exp_all] or again != exp_all:
            acc.violation(Viol('iteration', 'concurrent-or-abandoned-iterations-interfere', case, exp_all, [first, second_all, rest, again]))
    except Exception as e:  # noqa
        acc.violation(Viol('iteration', 'raises', case, None, f'{type(e).__name__}: {str(e)[:80]}'))
    if M not in (n, n + 1) or (runs[0] and M != n + 1):
        acc.violation(Viol('measure-count', 'inconsistent-with-barlines', case, f'{n} barline rows, pickup={bool(runs[0])}', M))
        return
    off = n + 1 - M
    singles = []
    raised = False
    if M >= 3:
        acc.nontriv(digest(text) + repr(sorted(kw)))
    pairs = [(a, b) for a in range(1, M + 1) for b in range(a, M + 1)] + [(a, None) for a in range(1, M + 1)] + [(None, b) for b in range(1, M + 1)]
    marks = None
    if M > 80:      # a very long score: every single measure, and every pair over the boundary values (powers of two and of ten, both ends)
        marks = sorted(x for x in {1, 2, 3, 9, 10, 11, 63, 64, 65, 99, 100, 101, 127, 128, 129, 255, 256, 257, 258, 299, 300, 301, M - 2, M - 1, M} if 1 <= x <= M)
        pairs = [(a, a) for a in range(1, M + 1)] + [(a, b) for a in marks for b in marks if a < b] + [(a, None) for a in marks] + [(None, b) for b in marks]
    for a, b in pairs:
        acc.count('transitions')
        acc.count('evaluations')
        aa, bb = (a or 1), (b or M)
        c2 = dict(case, from_measure=a, to_measure=b, M=M)
        cls = 'range' if (a is not None and b is not None) else 'open-range'
        try:
            o = kp.dumps(doc, from_measure=a, to_measure=b, **kw).split('\n')[:-1]
        except Exception as e:  # noqa
            raised = True
            if case.get('partial_signature_row') and str(e).startswith('Node signature mismatch'):
                # root cause tracked under C08 (class partial-signature-row); here it hides the data lines of the range
                acc.violation(Viol(cls + '-after-partial-signature-row', 'raises-node-signature-mismatch', c2, 'text', str(e)[:80]))
            else:
                acc.violation(Viol(cls, 'raises', c2, 'text', f'{type(e).__name__}: {str(e)[:80]}'))
            continue
        got = [l for l in o if is_data(l)]
        exp = [l for k in range(aa - 1 + off, bb + off) for l in runs[k]]
        acc.outcome(digest(o))
        if got != exp:
            acc.violation(Viol(cls, 'data-lines-are-not-those-of-the-measures', c2, exp, got))
        obars = [l for l in o if is_bar(l)]
        ia = aa - 1 + off
        if a is not None and ia >= 1 and (not obars or obars[0] != full[bars[ia - 1]]):
            acc.violation(Viol(cls, 'opening-barline-missing-or-wrong', c2, full[bars[ia - 1]], obars[:1]))
        ib = bb + off
        if b is not None and ib <= n and (not obars or obars[-1] != full[bars[ib - 1]]):
            acc.violation(Viol(cls, 'closing-barline-missing-or-wrong', c2, full[bars[ib - 1]], obars[-1:]))
        if a == b:
            singles += got
    acc.count('traces')
    if not raised and sorted(singles) != sorted(alldata):
        acc.violation(Viol('partition', 'single-measure-exports-do-not-contain-every-data-line-exactly-once', case, len(alldata), len(singles)))
    reversed_pairs = ([(b_, a_) for a_ in range(1, M + 1) for b_ in range(a_ + 1, M + 1)] if marks is None else [(b_, a_) for a_ in marks for b_ in marks if a_ < b_]) if M >= 10 else []     # every end-before-start pair of a long score
    for a, b in [(-1, 1), (-5, M), (1, M + 1), (1, M + 7), (2, 1), (M, M - 1), (-1, None), (None, M + 1), (M + 1, M + 1), (1, 10 * M + 1)] + reversed_pairs:
        if b == 0 or (a == 2 and M < 2):
            continue
        acc.count('transitions')
        try:
            kp.dumps(doc, from_measure=a, to_measure=b, **kw)
            acc.violation(Viol('out-of-range', 'accepted-instead-of-ValueError', dict(case, from_measure=a, to_measure=b, M=M), 'ValueError', 'returned'))
        except ValueError:
            pass
        except Exception as e:  # noqa
            acc.violation(Viol('out-of-range', 'wrong-exception-type', dict(case, from_measure=a, to_measure=b, M=M), 'ValueError', type(e).__name__))


KERN_OPTS = {'spine_types': ['**kern']}


def check(acc, job):
    m = D.materialise(job)
    if m is None:
        return
    text = m.text()
    blank_at = job[3] if len(job) > 3 else None
    if blank_at is not None:
        ls = text.split('\n')
        ls.insert(min(blank_at, len(ls) - 1), '')
        text = '\n'.join(ls)
    acc.state(digest(text))
    from ..model import sig_kind
    partial = any(len({sig_kind(c.spec) for c in r}) > 1 for r in m.crows())
    case = {'text': text, 'headers': job[0], 'seq': job[1], 'seed': job[2], 'partial_signature_row': partial, 'blank_at': blank_at}
    if all(h == '**kern' for h in job[0]):
        oracle(acc, text, case, {})
    else:
        oracle(acc, text, dict(case, options="spine_types=['**kern']"), KERN_OPTS)


def check_huge(acc, seed):
    """a score of 300 measures (three-digit measure indexes): selected ranges, boundaries of every power of two and of ten"""
    rows = ['**kern', '*clefG2']
    for k in range(1, 301):
        rows += [f'={k}', f"4{'cdefgab'[k % 7]}", f"8{'gabcdef'[k % 7]}L"]
    rows += ['==', '*-']
    text = '\n'.join(rows) + '\n'
    case = {'text': '(300-measure score built by check_huge)', 'headers': ['**kern'], 'seq': ['huge'], 'seed': seed}
    doc, _ = kp.loads(text)
    M = doc.measures_count()
    acc.count('evaluations')
    if M != 301 or list(doc) != list(range(1, 302)):
        acc.violation(Viol('iteration', 'does-not-yield-1-to-M', case, 301, [M, list(doc)[:12]]))
        return
    full = kp.dumps(doc).split('\n')[:-1]
    marks = sorted({1, 2, 9, 10, 11, 12, 99, 100, 101, 110, 111, 112, 127, 128, 129, 199, 200, 255, 256, 257, 258, 299, 300, 301})
    pairs = [(a, a) for a in marks] + [(a, b) for a in marks for b in marks if a < b and (b - a <= 3 or a in (1, 11, 111) or b in (112, 257, 301))]
    for a, b in pairs:
        acc.count('transitions')
        acc.nontriv(('huge', a, b))
        c2 = dict(case, from_measure=a, to_measure=b, M=M)
        try:
            o = kp.dumps(doc, from_measure=a, to_measure=b).split('\n')[:-1]
        except Exception as e:  # noqa
            acc.violation(Viol('range', 'raises', c2, 'text', f'{type(e).__name__}: {str(e)[:80]}'))
            continue
        got = [l for l in o if is_data(l)]
        exp = [l for k in range(a, min(b, 300) + 1) for l in (f"4{'cdefgab'[k % 7]}", f"8{'gabcdef'[k % 7]}L")] if a <= 300 else []
        if got != exp:
            acc.violation(Viol('range', 'data-lines-are-not-those-of-the-measures', c2, exp[:6], got[:6]))
        obars = [l for l in o if is_bar(l)]
        if not obars or obars[0] != ('=' if a <= 300 else '==') or (b < 301 and obars[-1] not in ('=', '==')):
            acc.violation(Viol('range', 'opening-barline-missing-or-wrong', c2, '=', obars[:1]))
    for a, b in [(b_, a_) for a_, b_ in pairs if a_ < b_] + [(1, 302), (302, 302), (301, 300), (11, 1), (111, 1), (112, 11), (12, 1)]:
        acc.count('transitions')
        try:
            kp.dumps(doc, from_measure=a, to_measure=b)
            acc.violation(Viol('out-of-range', 'accepted-instead-of-ValueError', dict(case, from_measure=a, to_measure=b, M=M), 'ValueError', 'returned'))
        except ValueError:
            pass
        except Exception as e:  # noqa
            acc.violation(Viol('out-of-range', 'wrong-exception-type', dict(case, from_measure=a, to_measure=b, M=M), 'ValueError', type(e).__name__))
    if list(doc) != list(range(1, 302)):
        acc.violation(Viol('iteration', 'does-not-yield-1-to-M', case, 301, list(doc)[:12]))


def _huge_job(seed):
    acc = Acc()
    check_huge(acc, seed)
    return acc


def _job(jobs):
    acc = Acc()
    for j in jobs:
        check(acc, j)
    if jobs:
        m = D.materialise(jobs[len(jobs) // 2])
        if m is not None:
            acc.sample({'text': m.text(), 'ranges': 'every 1<=a<=b<=M, (a,None), (None,b), out-of-range shapes'}, cap=1)
    return acc


SYMS = ['d', 'b', 'n', 'k', 'z', 'S0', 'J0']
BACKBONE = ['k', 'i', 'b', 'd', 'd', 'b', 'd', 'b', 'd', 'b']
MENU = ['d', 'b', 'n', 'k', 'z', 'i', 'S0', 'J0', 'c']


def jobs_for(tier, seed):
    quick = tier == 'quick'
    jobs = []
    for h, L in ((['**kern'], 5 if quick else 6), (['**kern', '**kern'], 4 if quick else 5), (['**kern', '**text'], 4 if quick else 5),
                 (['**kern', '**kern', '**kern'], 3 if quick else 4)):
        for seq in X.all_seqs(SYMS, L):
            if 'b' not in seq and 'd' not in seq:
                continue
            jobs.append((h, list(seq), seed))
    # empty measures between barlines of the same type, global comments next to barlines and data rows
    for h, L in ((['**kern'], 6 if quick else 7), (['**kern', '**text'], 5 if quick else 6)):
        for seq in X.all_seqs(['d', 'e', 'g'], L):
            if 'e' in seq and ('g' in seq or any(a == b == 'e' for a, b in zip(seq, seq[1:]))):
                jobs.append((h, list(seq), seed))
    dev_h = [['**kern', '**kern']] if quick else [['**kern'], ['**kern', '**kern'], ['**text', '**kern', '**kern']]
    for j in D.deviation_docs(dev_h, 2, (seed,), BACKBONE, MENU):
        jobs.append(j)
    if quick:
        for j in D.deviation_docs([['**kern'], ['**text', '**kern', '**kern']], 1, (seed,), BACKBONE, MENU):
            jobs.append(j)
    else:
        for j in D.deviation_docs([['**kern']], 3, (seed,), BACKBONE, ['d', 'b', 'z', 'S0', 'J0']):
            jobs.append(j)
    return jobs


def run(ctx):
    ctx.rule = ('every row sequence up to the length bound + all <=k deviations of a backbone (delete opening/closing barline, pickup, double barline, null rows, '
                'interpretation inside a measure, split/join inside a measure) x every measure pair; non-trivial = document with >= 3 measures')
    ctx.bounds = {'sequence_length': '5/4/4/3 (quick) 6/5/5/4 (thorough) for 1/2/2/3 spines', 'plain_barline_and_global_comment_sequences': '6/5 (quick) 7/6 (thorough) over data row, plain barline, global comment', 'deviations_k': 2 if ctx.quick else 3}
    ctx.assumptions = ['a data line = a line none of whose cells starts with * ! or =; the oracle is indifferent to whether an empty leading measure is numbered']
    jobs = jobs_for(ctx.tier, ctx.seed)
    jobs += [(j[0], j[1], j[2], 1 + k % 4) for k, j in enumerate(jobs) if k % 7 == 0]   # blank-line variants
    ctx.pmap(_huge_job, [ctx.seed], workers=1)
    longs = D.long_kern_docs(ctx.seed) + [(['**kern', '**text'], j[1], ctx.seed) for j in D.long_kern_docs(ctx.seed, reps=(4,))[:1]]
    longs += D.giant_jobs(ctx.seed, kern_only=True) + D.giant_jobs(ctx.seed + 1)      # ~1 900 lines, 350 measures
    ctx.pmap(_job, [[j] for j in longs] + list(X.chunks(jobs, 100)), chunksize=1)


def replay(case):
    acc = Acc()
    if case.get('seq') == ['huge']:
        check_huge(acc, case.get('seed', 0))
        return acc.viol
    check(acc, (case['headers'], case['seq'], case['seed'], case.get('blank_at')))
    return acc.viol
