"""C18 - Every spine type imports every token without loss.
Space: 9 non-kern headers x (grammar corpus + free text + malformed texts + ALL strings of length <= 2 (thorough: <= 3 over a sub-alphabet) over a
40-character alphabet).  Oracle: an independent recogniser (regular expressions written from the Humdrum syntax) decides whether a string is shared
structure; then category/export must be those of a **kern spine, otherwise the token is verbatim with the spine type's own category.
Document level: the same rows under every spine type - identical barline detection."""
import itertools
import re

import kernpy as kp

from .. import alphabet as A
from ..core import Acc, Viol, digest

NUM = r'[0-9]+'
BLT = r'(?:\|\||\|!:?|\|:|!\|:|=?:\|!|:\|!?\|:|:!:|:!!:|=)'
RX = {
    'EMPTY': re.compile(r'^(?:\.|\*)$'),
    'BARLINES': re.compile(rf'^==?(?:{NUM})?a?b?-?{BLT}?;?j?\.?\?*$'),
    'CLEF': re.compile(r'^\*clef[CFGPT](?:vv?|\^\^?)?[1-5]?$'),
    'KEY_SIGNATURE': re.compile(r'^(?:\*k\[(?:[a-g](?:#{1,3}|-{1,3}|n))*\]X?|\*kcancel)$'),
    'TIME_SIGNATURE': re.compile(rf'^\*M(?:{NUM}/{NUM}(?:\+{NUM}/{NUM})+|{NUM}(?:\+{NUM})+/{NUM}|{NUM}/{NUM}(?:;{NUM})?(?::{NUM}/{NUM}(?:;{NUM})?)+|{NUM}/{NUM}\|{NUM}/{NUM}|{NUM}/{NUM})(?:%2)?$'),
    'METER_SYMBOL': re.compile(r'^\*(?:M|met)\((?:c\|?|[CO.|/23r]+)\)$'),
    'STRUCTURAL': re.compile(rf'^\*staff\+?{NUM}(?:/{NUM})?$'),
    'BOUNDING_BOXES': re.compile(rf'^\*xywh-[^:]*:{NUM},{NUM},{NUM},{NUM}$'),
}
KEY_DESIGNATION = re.compile(r'^\*(?:[A-Ga-g][#-]?|\?)X?(?::(?:dor|phr|lyd|mix|aeo|ion|loc)?|[0-9]*)(?:/(?:[A-Ga-g][#-]?|\?)X?(?::(?:dor|phr|lyd|mix|aeo|ion|loc)?|[0-9]*))?$')
STRUCT_CATS = {'EMPTY', 'BARLINES', 'CLEF', 'KEY_SIGNATURE', 'TIME_SIGNATURE', 'METER_SYMBOL', 'STRUCTURAL', 'BOUNDING_BOXES', 'KEY_TOKEN', 'SIGNATURES',
               'HEADER', 'SPINE_OPERATION', 'IMAGE_ANNOTATIONS', 'LINE_BREAK', 'COMMENTS', 'FIELD_COMMENTS', 'LINE_COMMENTS'}
OWN = dict(A.OWN_CAT)
OWN.update({'**zzz': 'OTHER', '**e': 'OTHER', '**silbe': 'OTHER', '**dynamics': 'OTHER', '**textual': 'OTHER', '**kernel': 'OTHER', '**harmony': 'OTHER'})
HEADERS = ['**text', '**dynam', '**dyn', '**harm', '**mxhm', '**fing', '**zzz', '**e', '**silbe', '**dynamics', '**textual', '**kernel', '**harmony']
ALPHA = list("abcdefgrABCXyqLJ0123489*=.!-#:|;^v[]() k\"ñMj?/+%,")
SUB = list("acrCX049*=.!-#:|;[]() kñM")


def classify(t):
    for k, rx in RX.items():
        if rx.match(t):
            return k
    return None


def barline_export(t):
    """what a **kern spine exports for a barline: the measure number (and the a/b, hidden, j, '.', '?' marks) removed"""
    m = re.match(rf'^(==?)(?:{NUM})?a?b?-?({BLT})?(;?)j?\.?\?*$', t)
    return m.group(1) + (m.group(2) or '') + m.group(3)


def corpus(tier):
    c = []
    c += [s['src'] for s in A.KINT + A.KINT_KEY]
    c += [b[0] for b in A.BARS] + ['=1-', '=1j', '=1.', '=12a', '=1ab']
    c += [s['src'] for s in A.KDATA + A.RDATA]
    c += A.TEXT + A.LOOKALIKE + [b for bs in A.BAD.values() for b in bs]
    c += ['*clefG2', '*clefGv2', '*clefG^^2', '*clefC', '*clefF4x', '*clefX2', '*clefG6', '*k[f#]', '*k[]', '*k[b-e-]X', '*k[h#]', '*k[f#', '*kcancel', '*M4/4',
          '*M3+2/8', '*M2/4+3/8', '*M2/4%2', '*M2/4;3:3/4', '*M2/4|3/4', '*M4', '*M4/', '*M/4', '*met(c)', '*met(c|)', '*met(O.)', '*M(C|3/2)', '*met()', '*met(x)',
          '*staff1', '*staff+1', '*staff1/2', '*staff', '*staffx', '*xywh-1:1,2,3,4', '*xywh-p 1:10,20,30,40', '*xywh-1:1,2,3', '*xywh1:1,2,3,4', '=1', '=1-||',
          '=1||;', '=:|!|:', '=:||:', '=:!!:', '==:|!', '=|!:', '=|!', '===', '====', '=1=', '=1:|!', '=!|', '=!', '=|', '=:', '=1x', '=a1', '*^', '*v', '*-', '*+', '*x',
          '**kern', '!!comment', '!', '!x', '*xywh-img:1', '*xywh-01:10,20,30', 'rit.', '.', 'rit', '=2', 'ri-', '*', 'rM', '*clefG2', 'cresc.', '=', 'dim.', '*xywh-01', '4c']
    # texts that a well-meant clean-up would change (Unicode normal forms, case folding, trimming, collapsing blanks, escaping, number / literal parsing)
    c += ['u\u0308ber', 'e\u0301', '\u212b', '\ufb01n', '\uff76', 'a\u00a0b', '\u00a0', 'a  b', ' a', 'a ', ' a ', 'A', 'Ab', 'aB', 'ÀÉ', 'ß', 'İ', 'a\u200db', '\ufeffa', 'a\u00adb',
          '&amp;', '&', '<b>', 'a\\b', "'a'", '%41', '%', 'a%20b', '007', '1e3', '0x10', '1.0', '-0', '+1', 'True', 'None', 'null', 'nan', 'inf', '1_000', '1,5',
          'a...', '…', '--', 'a--b', 'a_b', '_', '~', 'a~', '{a}', '{}', '$x', '@', '·', 'a@b', 'a·b', '\x7f', '\x01', 'a\x0bb', 'a\x0cb', 'a\x1cb', 'a\u2028b', 'a\x85b', '\r', 'a\rb']
    c += [''.join(p) for n in (1, 2) for p in itertools.product(ALPHA, repeat=n)]
    if tier != 'quick':
        c += [''.join(p) for p in itertools.product(SUB, repeat=3)]
    seen = set()
    out = []
    for t in c:
        if t and t not in seen and '\t' not in t and '\n' not in t:
            seen.add(t)
            out.append(t)
    return out


def kern_view(t):
    try:
        tok = kp.KernSpineImporter().import_token(t)
        return tok.category.name, tok.export(), bool(getattr(tok, 'hidden', False))
    except Exception:
        return None


def _job(job):
    header, lo, hi, tier = job
    acc = Acc()
    own = OWN[header]
    C = corpus(tier)
    imp_shared = kp.createImporter(header)     # one shared importer for the whole slice: its outcome must not depend on history either
    for t in C[lo:hi]:
        case = {'header': header, 'cell': t}
        acc.count('evaluations')
        acc.count('transitions', 2)
        acc.state((header, t))
        try:
            tok = kp.createImporter(header).import_token(t)
            got = (tok.category.name, tok.export())
            hidden = bool(getattr(tok, 'hidden', False))
            tok2 = imp_shared.import_token(t)
            if (tok2.category.name, tok2.export()) != got or bool(getattr(tok2, 'hidden', False)) != hidden:
                acc.violation(Viol('importer-history', 'outcome-depends-on-tokens-parsed-before', dict(case, slice=[lo, hi], tier=tier), got, (tok2.category.name, tok2.export())))
        except Exception as e:  # noqa
            acc.violation(Viol('any-cell', 'import-of-the-cell-raises', case, 'a token', f'{type(e).__name__}: {str(e)[:80]}'))
            continue
        acc.outcome(got)
        kind = classify(t)
        kv = kern_view(t)
        if kind is not None:
            acc.nontriv((header, t))
            exp = (kind, barline_export(t) if kind == 'BARLINES' else t)
            if got != exp:
                acc.violation(Viol('shared-structure', 'not-recognised-as-in-a-kern-spine', case, exp, got))
            elif kv is not None and (kv[:2] != got or kv[2] != hidden):
                acc.violation(Viol('shared-structure', 'differs-from-the-kern-spine-result', case, kv, got + (hidden,)))
        else:
            exp = (own, t)
            if got == exp:
                continue
            if KEY_DESIGNATION.match(t) and got == ('KEY_TOKEN', t):
                continue        # the documentation leaves the category of key designations open (DESIGN §2.1)
            if got[0] in STRUCT_CATS and t.startswith(got[1]) and got[1] != t or (got[0] == 'BARLINES' and kv is not None and kv[:2] == got):
                # kernpy recognised shared structure from a PREFIX of the text (class tracked under C12 as well)
                acc.violation(Viol('trailing-characters-after-valid-token', 'shared-structure-recognised-from-a-prefix-and-text-lost', case, exp, got))
            else:
                acc.violation(Viol('free-text', 'not-verbatim-with-the-spine-types-own-category', case, exp, got))
    if lo == 0:
        acc.sample({'header': header, 'cells': C[:3] + C[200:203], 'corpus_size': len(C)}, cap=1)
    return acc


ROWS = ['*clefG2', '*k[f#]', '*M4/4', '=1', 'X', '=2||', 'Y', '=3:|!', '.', '==']


def check_docs(acc, seed):
    """the same rows presented under different spine types: barlines detected identically"""
    ref = None
    for header in ['**kern'] + HEADERS:
        for layout in ('single', 'next-to-kern'):
            rows = [header] + [('4c' if r == 'X' else '4e') if r in ('X', 'Y') and header == '**kern' else ({'X': 'la', 'Y': 'f'}.get(r, r)) for r in ROWS] + ['*-']
            if layout == 'next-to-kern':
                krows = ['**kern'] + [{'X': '4c', 'Y': '4d'}.get(r, r) for r in ROWS] + ['*-']
                text = '\n'.join(f'{a}\t{b}' for a, b in zip(rows, krows)) + '\n'
                col = 0
            else:
                text = '\n'.join(rows) + '\n'
                col = 0
            case = {'header': header, 'layout': layout, 'text': text}
            acc.count('evaluations')
            acc.count('transitions')
            try:
                doc, errs = kp.loads(text)
                M = doc.measures_count()
                bars = [(i, n.token.encoding) for i, st in enumerate(doc.tree.stages) for n in st[col:col + 1] if getattr(n.token, 'category', None) is not None and n.token.category.name == 'BARLINES']
                cats = [st[col].token.category.name for st in doc.tree.stages[2:]]
            except Exception as e:  # noqa
                acc.violation(Viol('document', 'raises', case, None, f'{type(e).__name__}: {str(e)[:80]}'))
                continue
            acc.count('traces')
            view = (M, bars)
            if ref is None:
                ref = view
            if view != ref:
                acc.violation(Viol('document', 'barlines-detected-differently-than-under-kern', case, ref, view))
            if errs and header != '**kern':
                acc.violation(Viol('document', 'import-errors-in-a-non-kern-spine', case, 'none', [e.encoding for e in errs]))


SHARED_CELLS = ['A', '1', 'f', 'p', 'la', 'C7', 'I', 'x y', 'ñ', '-', 'la', 'A', '1']


def check_type_pairs(acc):
    """ONE document, two (three) spines of DIFFERENT non-kern types carrying the SAME cell texts (also repeated further down): every cell must get the category
    of ITS OWN spine type, verbatim - whatever was parsed for the same text in another spine or earlier in the same spine"""
    import itertools
    from ..alphabet import OWN_CAT
    own = lambda h: OWN_CAT.get(h, 'OTHER')
    combos = [list(p) for p in itertools.permutations(HEADERS, 2)] + [list(HEADERS[i:i + 3]) for i in range(len(HEADERS) - 2)] + [['**kern'] + list(HEADERS[:2]), list(HEADERS[2:4]) + ['**kern']]
    for hs in combos:
        rows = ['\t'.join(hs), '\t'.join('=1' for _ in hs)]
        for k, c in enumerate(SHARED_CELLS):
            rows.append('\t'.join(('4c' if h == '**kern' else c) for h in hs))
            if k == 5:
                rows.append('\t'.join('=2' for _ in hs))
        rows.append('\t'.join('*-' for _ in hs))
        text = '\n'.join(rows) + '\n'
        case = {'header': '+'.join(hs), 'layout': 'type-pair-with-the-same-cells', 'text': text}
        acc.count('evaluations')
        acc.count('transitions')
        acc.nontriv(('pair', tuple(hs)))
        try:
            doc, errs = kp.loads(text)
            out = kp.dumps(doc, spine_types=hs)
        except Exception as e:  # noqa
            acc.violation(Viol('document', 'raises', case, None, f'{type(e).__name__}: {str(e)[:80]}'))
            continue
        acc.count('traces')
        bad = []
        data_stages = [st for st in doc.tree.stages[1:] if st and len(st) == len(hs) and getattr(st[0].token, 'encoding', '')[:1] not in ('*', '=')]
        exp_cells = list(SHARED_CELLS)
        if len(data_stages) != len(exp_cells):
            bad.append(('stage-count', len(data_stages)))
        else:
            for st, c in zip(data_stages, exp_cells):
                for h, n in zip(hs, st):
                    if h == '**kern':
                        continue
                    got = (n.token.category.name, n.token.export())
                    if got != (own(h), c):
                        bad.append((h, c, got))
        if bad:
            acc.violation(Viol('document', 'cell-does-not-carry-its-own-spine-types-category-verbatim', case, 'own category, verbatim text', bad[:4]))
        elif errs:
            acc.violation(Viol('document', 'import-errors-in-a-non-kern-spine', case, 'none', [e.encoding for e in errs][:3]))
        elif out.split('\n')[2:2 + 6] != rows[2:8]:
            acc.violation(Viol('document', 'export-does-not-reproduce-the-cells', case, rows[2:8], out.split('\n')[2:8]))


def run(ctx):
    C = corpus(ctx.tier)
    ctx.rule = ('9 headers x corpus (grammar alternatives, free text, malformed, look-alikes, all strings of length <= 2 / 3); non-trivial = cell that is shared structure by the independent recogniser')
    ctx.bounds = {'headers': HEADERS, 'corpus': len(C), 'alphabet': len(ALPHA), 'max_string_length': 2 if ctx.quick else '3 over a 25-character sub-alphabet'}
    ctx.assumptions = ['which strings are shared structure is decided by regular expressions written from the Humdrum syntax (kv/props/c18.py), not by kernpy',
                       'key designations (*C:) may be verbatim own-category tokens or KEY_TOKEN']
    check_docs(ctx, ctx.seed)
    check_type_pairs(ctx)
    step = 400
    ctx.pmap(_job, [(h, lo, min(lo + step, len(C)), ctx.tier) for h in HEADERS for lo in range(0, len(C), step)], chunksize=1)
    ctx.count('traces', ctx.n.get('evaluations', 0))


def replay(case):
    acc = Acc()
    if 'slice' in case:
        d = _job((case['header'], case['slice'][0], case['slice'][1], case.get('tier', 'quick')))
        return [v for v in d.viol if v['cls'] == 'importer-history']
    if 'cell' in case:
        C = corpus('thorough')
        i = C.index(case['cell']) if case['cell'] in C else None
        if i is not None:
            d = _job((case['header'], i, i + 1, 'thorough'))
            return d.viol
    elif case.get('layout') == 'type-pair-with-the-same-cells':
        check_type_pairs(acc)
        return [v for v in acc.viol if v['case']['header'] == case['header']] or acc.viol
    else:
        check_docs(acc, 0)
        return [v for v in acc.viol if v['case']['header'] == case['header'] and v['case']['layout'] == case['layout']]
    return acc.viol
