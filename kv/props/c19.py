"""C19 - Concatenation indexes address the fragments.
Space: C07's kern-only documents (row sequences + deviations) cut at EVERY non-empty subset of barline rows into 1..6 fragments, joined with
'\\n' (fragments without trailing newline) and with '' (fragments with trailing newline).
Oracle: the document equals the import of the joined text; one pair per fragment; pairs consecutive; last 'to' == measure count; exporting pair i
reproduces the data lines of fragment i (normalised through kernpy's own full export of the joined score)."""
import itertools

import kernpy as kp

from .. import docspace as D
from .. import explore as X
from ..core import Acc, Viol, digest
from .c07 import is_bar, is_data, SYMS, BACKBONE, MENU


def check(acc, job):
    m = D.materialise(job)
    if m is None:
        return
    text = m.text()
    lines = text.split('\n')[:-1]
    blank_at = job[3] if len(job) > 3 else None
    if blank_at is not None:
        lines.insert(min(blank_at, len(lines) - 1), '')       # a blank line inside a fragment is not a row
        text = '\n'.join(lines) + '\n'
    barpos = [i for i, l in enumerate(lines) if i > 0 and l and is_bar(l)]
    if not barpos:
        return
    acc.state(digest(text))
    case0 = {'text': text, 'headers': job[0], 'seq': job[1], 'seed': job[2], 'blank_at': blank_at}
    # data lines per source line, as the full export writes them (normal form): line i of the source <-> its normalised text
    try:
        doc0, errs0 = kp.loads(text)
        full = kp.dumps(doc0)
    except Exception:
        return
    if errs0:
        return
    norm = {}
    fl = [l for l in full.split('\n') if l]
    src_nonnull = [i for i, l in enumerate(lines) if l and not l.startswith('!!') and not all(c in ('.', '*') for c in l.split('\t'))]
    if len(fl) != len(src_nonnull):
        # the export of the whole score does not even have the source's rows: then no pair can reproduce its fragment either
        acc.violation(Viol('joined-score', 'export-of-the-whole-score-does-not-have-the-rows-of-its-source', case0, len(src_nonnull), len(fl)))
        return
    for i, l in zip(src_nonnull, fl):
        norm[i] = l
    if len(barpos) > 40:
        # a very long score (hundreds of measures): cut sets over the boundary positions only, each with one of the two separators
        bp = barpos
        pick = lambda *ix: tuple(bp[i] for i in ix if -len(bp) <= i < len(bp))
        cutsets = [((), '\n'), (pick(0), ''), (pick(-1), '\n'), (pick(255, 256), ''), (pick(63, 127, 255, -2), '\n'), (pick(0, 1, 256, -1), '')]
    else:
        cutsets = [(cuts, sep) for k in range(0, min(len(barpos), 5) + 1) for cuts in itertools.combinations(barpos, k) for sep in ('\n', '')]
    if True:
        if True:
            for cuts, sep in cutsets:
                k = len(cuts)
                bounds = [0] + list(cuts) + [len(lines)]
                frs = ['\n'.join(lines[bounds[i]:bounds[i + 1]]) for i in range(len(bounds) - 1)]
                if sep == '':
                    frs = [f + '\n' for f in frs]
                first_has_measure = any(l and (is_bar(l) or is_data(l) or all(c == '*' for c in l.split('\t'))) for l in lines[1:bounds[1]])
                cls = 'first-fragment-has-a-measure' if first_has_measure else 'first-fragment-header-only'
                case = dict(case0, cuts=list(cuts), separator=sep, cls=cls)
                acc.count('evaluations')
                acc.count('transitions')
                if k >= 1:
                    acc.nontriv((digest(text), cuts, sep))
                try:
                    doc, idx = kp.concat(frs, separator=sep)
                except Exception as e:  # noqa
                    acc.violation(Viol(cls, 'concat-raises-' + type(e).__name__, case, 'document and index pairs', str(e)[:80]))
                    continue
                acc.count('traces')
                acc.outcome((len(idx), tuple(map(tuple, idx))))
                d2, _ = kp.loads(sep.join(frs))
                if kp.dumps(doc) != kp.dumps(d2) or kp.dumps(doc, encoding=kp.Encoding.eKern) != kp.dumps(d2, encoding=kp.Encoding.eKern) \
                        or [t.encoding for t in doc.get_all_tokens()] != [t.encoding for t in d2.get_all_tokens()]:
                    acc.violation(Viol(cls, 'document-differs-from-import-of-joined-text', case, None, None))
                if len(idx) != len(frs):
                    acc.violation(Viol(cls, 'not-one-pair-per-fragment', case, len(frs), idx))
                    continue
                try:
                    M = doc.measures_count()
                except Exception:
                    M = 0
                if idx[-1][1] != M:
                    acc.violation(Viol(cls, 'last-to-is-not-the-measure-count', case, M, idx))
                if idx[0][0] not in (0, 1):
                    acc.violation(Viol(cls, 'first-from-is-not-0-or-1', case, '0 or 1', idx))
                if any(l2 != h1 + 1 for (l1, h1), (l2, h2) in zip(idx, idx[1:])):
                    acc.violation(Viol(cls, 'pairs-not-consecutive', case, None, idx))
                for fi, ((lo, hi), f) in enumerate(zip(idx, frs)):
                    exp = [norm[i] for i in range(bounds[fi], bounds[fi + 1]) if i in norm and lines[i] and is_data(lines[i]) and not lines[i].startswith('**')]
                    acc.count('transitions')
                    if hi < lo or (hi == 0 and lo == 0 and exp):
                        if exp:
                            acc.violation(Viol(cls, 'fragment-with-data-has-an-empty-pair', dict(case, fragment=fi), exp, (lo, hi)))
                        continue
                    # (a header-only first fragment has the pair (0, 0): exporting it must give no data line at all)
                    try:
                        o = kp.dumps(doc, from_measure=lo, to_measure=hi)
                    except Exception as e:  # noqa
                        acc.violation(Viol(cls, 'export-of-pair-raises-' + type(e).__name__, dict(case, fragment=fi, pair=[lo, hi]), exp, str(e)[:80]))
                        continue
                    got = [l for l in o.split('\n') if l and is_data(l) and not l.startswith('**')]
                    if got != exp:
                        acc.violation(Viol(cls, 'pair-does-not-reproduce-the-data-lines-of-its-fragment', dict(case, fragment=fi, pair=[lo, hi]), exp, got))
                # after the exports: still the same document as the import of the joined text
                try:
                    M2 = doc.measures_count()
                except Exception:
                    M2 = 0
                if M2 != M or list(getattr(doc, 'measure_start_tree_stages', [])) != list(getattr(d2, 'measure_start_tree_stages', [])):
                    acc.violation(Viol(cls, 'measure-count-changed-by-exporting-the-pairs', case, M, M2))


def _job(jobs):
    acc = Acc()
    for j in jobs:
        check(acc, j)
    if jobs:
        m = D.materialise(jobs[len(jobs) // 2])
        if m is not None:
            acc.sample({'text': m.text(), 'cuts': 'every subset of barline rows (<= 5 cuts), separators newline and empty'}, cap=1)
    return acc


def run(ctx):
    quick = ctx.quick
    seed = ctx.seed
    jobs = []
    for h, L in ((['**kern'], 4 if quick else 5), (['**kern', '**kern'], 3 if quick else 4)):
        for seq in X.all_seqs(['d', 'b', 'n', 'k', 'S0', 'J0'] + (['X0'] if len(h) > 1 else []), L):
            if 'b' not in seq:
                continue
            jobs.append((h, list(seq), seed))
    for j in D.deviation_docs([['**kern']] if quick else [['**kern'], ['**kern', '**kern']], 1 if quick else 2, (seed,), BACKBONE, ['d', 'b', 'n', 'k', 'z', 'S0', 'J0']):
        jobs.append(j)
    jobs += [(j[0], j[1], j[2], 2 + k % 5) for k, j in enumerate(jobs) if k % 5 == 0]       # blank-line variants
    ctx.rule = ('kern-only documents (row sequences + deviations of a backbone) x every subset of barline rows as cut set (<= 5 cuts) x two separators; '
                'non-trivial = at least one cut')
    ctx.bounds = {'sequence_length': '4/3 (quick) 5/4 (thorough)', 'deviations_k': 1 if quick else 2, 'max_cuts': 5}
    ctx.assumptions = ['fragment data lines are compared in kernpy\'s normal form (taken from its own full export of the joined score, C03)',
                       'cases are labelled first-fragment-has-a-measure / first-fragment-header-only']
    ctx.pmap(_job, [[j] for j in D.long_kern_docs(seed, reps=(2,)) + [(['**kern', '**kern'], ['GIANT', '1500'], seed)]] + list(X.chunks(jobs, 40)), chunksize=1)


def replay(case):
    acc = Acc()
    check(acc, (case['headers'], case['seq'], case['seed'], case.get('blank_at')))
    return [v for v in acc.viol if v['case'].get('cuts') == case.get('cuts') and v['case'].get('separator') == case.get('separator')] or acc.viol[:1]
