"""C06 - Spine selection is column projection.
Space: every enabled row sequence up to a depth (data, barline, every split, join, single termination) for 1-4 spines x every
subset of spine ids x every subset of the header types present (and combinations; ids ascending / descending / duplicated /
as set / tuple).  Oracle: the model's column->spine map applied to kernpy's own full export (string equality)."""
import itertools

import kernpy as kp

from .. import alphabet as A
from .. import explore as X
from ..core import Acc, Viol, digest
from ..model import ref_rows

DEFAULT_TYPES = {'**mens', '**kern', '**text', '**harm', '**mxhm', '**root', '**dyn', '**dynam', '**fing'}


def project(rows, lines, keep):
    """rows: ref_rows of the full export (aligned with lines); keep(cell)->bool"""
    out = []
    for r, line in zip(rows, lines):
        cells = line.split('\t')
        sel = [t for t, c in zip(cells, r['cells']) if keep(c)]
        if not sel or all(t in A.NULLS for t in sel):
            continue
        out.append('\t'.join(sel))
    return ''.join(l + '\n' for l in out)


def subsets(xs):
    xs = list(xs)
    for k in range(len(xs) + 1):
        yield from itertools.combinations(xs, k)


def check_doc(acc, headers, hist, pre=()):
    m = X.build(headers, hist, pre, close=True)
    text = m.text()
    case = {'text': text, 'headers': headers, 'hist': hist, 'pre': list(pre)}
    acc.count('evaluations')
    acc.state(digest(text))
    try:
        doc, errs = kp.loads(text)
        full = kp.dumps(doc)
    except Exception as e:  # noqa
        acc.violation(Viol('well-formed', 'import-or-export-raises', case, None, f'{type(e).__name__}: {str(e)[:100]}'))
        return
    rows = ref_rows(m)
    lines = full.split('\n')[:-1]
    acc.count('transitions')
    if len(rows) != len(lines) or any(len(l.split('\t')) != len(r['cells']) for r, l in zip(rows, lines)):
        acc.violation(Viol('well-formed', 'full-export-grid-differs-from-model', case, len(rows), len(lines)))
        return
    ns = len(headers)
    has_split = any(c.src == '*^' for c in m.cells())
    types_present = sorted(set(headers))
    idsets = list(subsets(range(ns)))
    typesets = list(subsets(types_present))

    def run_case(kw, keep, label):
        acc.count('transitions')
        acc.count('traces')
        try:
            got = kp.dumps(doc, **kw)
        except Exception as e:  # noqa
            acc.violation(Viol('projection', 'raises', dict(case, options=label), None, f'{type(e).__name__}: {str(e)[:100]}'))
            return
        exp = project(rows, lines, keep)
        acc.outcome(digest(got))
        if got != exp:
            acc.violation(Viol('projection', 'differs-from-column-projection', dict(case, options=label), exp, got))

    for ids in idsets:
        s = set(ids)
        if has_split and len(s) < ns:
            acc.nontriv((digest(text), ids))
        shapes = [list(ids)]
        if len(ids) >= 2:
            shapes += [list(reversed(ids)), list(ids) + [ids[0]], set(ids), tuple(ids)]
        for sh in shapes:
            run_case({'spine_ids': sh}, lambda c, s=s: c.spine in s, {'spine_ids': sorted(sh) if isinstance(sh, set) else list(sh), 'shape': type(sh).__name__})
    for ts in typesets:
        t = set(ts)
        for sh in (list(ts), set(ts)):
            run_case({'spine_types': sh}, lambda c, t=t: headers[c.spine] in t, {'spine_types': sorted(ts)})
        # the spine-type query = header line of that projection
        acc.count('transitions')
        try:
            got = kp.spine_types(doc, list(ts))
        except Exception as e:  # noqa
            got = f'{type(e).__name__}'
        exp = [h for h in headers if h in t]
        if got != exp:
            acc.violation(Viol('spine-type-query', 'differs-from-projected-header-line', dict(case, headers_arg=list(ts)), exp, got))
    # one options object used for several exports, its selection re-assigned in between (Exporter.export_string / kp.export take such an object)
    try:
        ex = kp.Exporter()
        opts = kp.ExportOptions()
        for ids in ([0], [ns - 1], list(range(ns)), [0]):
            opts.spine_ids = list(ids)
            acc.count('transitions')
            got = ex.export_string(doc, opts)
            exp = project(rows, lines, lambda c, s=set(ids): c.spine in s)
            if got != exp:
                acc.violation(Viol('projection-options-object-reused', 'differs-from-column-projection', dict(case, options={'spine_ids': list(ids), 'options_object': 'reused'}), exp, got))
                break
        opts2 = kp.ExportOptions()
        for ts in ([headers[0]], [headers[-1]], sorted(set(headers))):
            opts2.spine_types = list(ts)
            acc.count('transitions')
            got = kp.Exporter().export_string(doc, opts2)
            exp = project(rows, lines, lambda c, t=set(ts): headers[c.spine] in t)
            if got != exp:
                acc.violation(Viol('projection-options-object-reused', 'differs-from-column-projection', dict(case, options={'spine_types': list(ts), 'options_object': 'reused'}), exp, got))
                break
    except Exception as e:  # noqa
        acc.violation(Viol('projection-options-object-reused', 'raises', case, None, f'{type(e).__name__}: {str(e)[:100]}'))
    acc.count('transitions')
    got = kp.spine_types(doc)
    exp = [h for h in headers if h in DEFAULT_TYPES]
    if got != exp:
        acc.violation(Viol('spine-type-query', 'differs-from-projected-header-line', dict(case, headers_arg=None), exp, got))
    # combinations of both options
    for ids in idsets:
        for ts in typesets:
            if not ids or not ts or (len(ids) == ns and len(ts) == len(types_present)):
                continue
            s, t = set(ids), set(ts)
            run_case({'spine_ids': list(ids), 'spine_types': list(ts)}, lambda c, s=s, t=t: c.spine in s and headers[c.spine] in t,
                     {'spine_ids': list(ids), 'spine_types': sorted(ts)})


def check_wide(acc, seed):
    from .. import docspace as D
    h, seq, sd = D.wide_docs(seed)[0]
    m = X.seq_model(h, seq, sd, cap=16)
    text = m.text()
    case = {'text': text, 'headers': h, 'hist': [[c.spec for c in r] for r in m.crows()[1:-1]], 'pre': []}
    doc, _ = kp.loads(text)
    full = kp.dumps(doc)
    rows = ref_rows(m)
    lines = full.split('\n')[:-1]
    acc.count('evaluations')
    if len(rows) != len(lines):
        acc.violation(Viol('well-formed', 'full-export-grid-differs-from-model', case, len(rows), len(lines)))
        return
    ns = len(h)
    sets = [(i,) for i in range(ns)] + list(itertools.combinations(range(ns), 2)) + [tuple(j for j in range(ns) if j != i) for i in range(ns)] + [(9, 10, 11), (1, 10), (11, 0)]
    for ids in sets:
        s = set(ids)
        acc.count('transitions')
        acc.count('traces')
        acc.nontriv(('wide', ids))
        got = kp.dumps(doc, spine_ids=list(ids))
        exp = project(rows, lines, lambda c, s=s: c.spine in s)
        if got != exp:
            acc.violation(Viol('projection', 'differs-from-column-projection', dict(case, options={'spine_ids': list(ids)}), exp, got))
    for ts in subsets(sorted(set(h))):
        if len(ts) not in (1, 2, len(set(h)) - 1):
            continue
        t = set(ts)
        acc.count('transitions', 2)
        got = kp.dumps(doc, spine_types=list(ts))
        exp = project(rows, lines, lambda c, t=t: h[c.spine] in t)
        if got != exp:
            acc.violation(Viol('projection', 'differs-from-column-projection', dict(case, options={'spine_types': list(ts)}), exp, got))
        if kp.spine_types(doc, list(ts)) != [x for x in h if x in t]:
            acc.violation(Viol('spine-type-query', 'differs-from-projected-header-line', dict(case, headers_arg=list(ts)), [x for x in h if x in t], kp.spine_types(doc, list(ts))))
    if doc.get_spine_ids() != list(range(ns)):
        acc.violation(Viol('projection', 'spine-ids-differ', case, list(range(ns)), doc.get_spine_ids()))


def menu(m, n, seed, cap):
    return X.struct_menu(m, n, seed, cap, content='db', pairs=False, multi=False, terms=True)


def _job(job):
    headers, prefix, depth, seed, cap = job
    acc = Acc()
    X.walk(headers, depth, seed, cap, menu, lambda h: check_doc(acc, headers, h), prefix)
    if prefix:
        acc.sample({'text': X.build(headers, prefix).text(), 'options': 'every subset of spine ids and of the header types present'}, cap=1)
    return acc


def run(ctx):
    quick = ctx.quick
    seed = ctx.seed
    cfg = [(['**kern'], 5), (['**kern', '**text'], 4), (['**kern', '**kern'], 4), (['**text', '**kern', '**kern'], 3),
           (['**kern', '**text', '**kern', '**dynam'], 3)]
    if not quick:
        cfg = [(['**kern'], 6), (['**kern', '**text'], 6), (['**kern', '**kern'], 5), (['**text', '**kern', '**kern'], 5), (['**kern', '**text', '**kern', '**dynam'], 4)]
        cfg = [(h, d) for h, d in cfg] + [(['**root', '**fing', '**kern'], 4), (['**dynam', '**harm'], 5)]
    ctx.rule = ('every enabled row sequence up to the depth bound x every subset of spine ids x every subset of header types x combinations; '
                'non-trivial = projection removes >= 1 spine of a document containing a split')
    ctx.bounds = {'configurations': [{'headers': h, 'depth': d} for h, d in cfg], 'column_cap': 6}
    ctx.assumptions = ['column->spine map from kv/model.py; expected text = kernpy\'s own full export with the unselected columns deleted']
    jobs = []
    for h, d in cfg:
        shorter, js = X.walk_jobs(h, d, seed, 6, menu, split_at=min(2 if d < 5 else 3, d))
        a = Acc()
        for hist in shorter:
            check_doc(a, h, hist)
        ctx.merge(a)
        jobs += [(h, p, rem, seed, 6) for p, rem in js]
    check_wide(ctx, seed)
    # hand-made documents beyond the bounds (deep nesting, two join groups of one spine in one row, five and more sub-spines)
    big = Acc()
    from .. import docspace as D
    hb = [(h, ['k', 'b', 'd', 'h', 'd', 'S0', 'd', 'H', 'd', 'h', 'J0', 'd', 'H', 'b'], seed + k) for k, h in enumerate((['**kern', '**text'], ['**text', '**kern', '**kern'], ['**kern', '**kern'], ['**kern', '**text', '**kern', '**dynam']))]
    for h, seq, sd in D.huge_docs(seed + 6, headers=(('**kern', '**text'), ('**text', '**kern', '**kern'))) + D.giant_jobs(seed) + D.aligned_jobs(seed) + D.aligned_jobs(seed + 1, totals=(1100,)) + D.aligned_jobs(seed + 2, totals=(1100,)) + D.aligned_jobs(seed + 3, totals=(1100,)) + hb + [(['**kern', '**kern'], ['d', 'S0', 'S0', 'S0', 'S0', 'd', 'Z0', 'd', 'S3', 'd', 'J0', 'J0', 'd'], seed + 3),
                       (['**kern', '**text', '**kern'], ['d', 'S2', 'S2', 'S2', 'S2', 'S2', 'd', 'W3', 'd', 'J2', 'd', 'J2', 'd'], seed + 4),
                       (['**kern', '**text', '**kern'], ['k', 'd', 'S0', 'S0', 'S0', 'd', 'S3', 'd', 'Y0', 'd', 'J0', 'J0', 'd', 'X1', 'd', 'b', 'S2', 'S3', 'd', 'J2', 'J2', 'd'], seed)]:
        mm = D.materialise((h, seq, sd), cap=16)
        check_doc(big, h, D.hist_of(mm), tuple(r for _k, r in mm.rows[:mm.header_row]))
    ctx.merge(big)
    ctx.pmap(_job, jobs, chunksize=1)


def replay(case):
    acc = Acc()
    check_doc(acc, case['headers'], X.hist_from_json(case['hist']), tuple(case.get('pre', ())))
    return acc.viol
