"""C09 - Transposition is exact interval arithmetic.
Exhaustive grid 7 letters x 5 alterations x octaves 0..8 x 40 intervals x 2 directions, and the transition graph
it induces explored to depth 2 from every grid state, against kv/pitchref.py."""
import itertools

import kernpy as kp

from .. import pitchref as R
from ..core import Acc, Viol

DIRS = ('up', 'down')
GRID = [(l, a, o) for l in R.LETTERS for a in range(-2, 3) for o in range(0, 9)]


def T(s, name, d):
    try:
        return kp.transpose(s, kp.IntervalsByName[name], direction=d)
    except Exception as e:  # noqa
        return ('exc', type(e).__name__)


def TA(p, name, d):
    """same step through the AgnosticPitch API (transpose_agnostics)"""
    try:
        ap = kp.AgnosticPitch(p[0] + ('+' * p[1] if p[1] > 0 else '-' * -p[1]), p[2])
        r = kp.transpose_agnostics(ap, kp.IntervalsByName[name], direction=d)
        alt = r.name.count('+') - r.name.count('-')
        return (r.name.replace('+', '').replace('-', ''), alt, r.octave)
    except Exception as e:  # noqa
        return ('exc', type(e).__name__)


def spellable(p):
    return abs(p[1]) <= 2


def check_edge(acc, p, name, d, depth2=True):
    s = R.spell(*p)
    exp = R.transpose(p, name, d)
    got = T(s, name, d)
    acc.count('transitions')
    acc.count('evaluations')
    acc.state(s)
    case = {'pitch': s, 'interval': name, 'direction': d}
    if spellable(exp):
        acc.nontriv((s, name, d))
        es = R.spell(*exp)
        if got != es:
            sym = 'raises-on-spellable-result' if isinstance(got, tuple) else 'wrong-spelling'
            acc.violation(Viol('edge', sym, case, es, got))
        ga = TA(p, name, d)
        acc.count('transitions')
        if ga != exp:
            acc.violation(Viol('edge-agnostic-api', 'wrong-pitch', case, exp, ga))
    if isinstance(got, tuple):
        acc.outcome('raises')
        return None
    acc.outcome(got)
    acc.state(got)
    # inverse law: whenever the first step returned at all
    back = T(got, name, 'down' if d == 'up' else 'up')
    acc.count('transitions')
    if back != s:
        acc.violation(Viol('law-inverse', 'does-not-return-to-start', case, s, {'mid': got, 'back': back}))
    return got


def _job(job):
    lo, hi, tier = job
    acc = Acc()
    names = R.INTERVAL_NAMES
    iv = {n: R.interval(n) for n in names}
    byval = {}
    for n, v in iv.items():
        byval.setdefault(v, n)
    for p in GRID[lo:hi]:
        s = R.spell(*p)
        for name in names:
            for d in DIRS:
                mid = check_edge(acc, p, name, d)
                if mid is None:
                    continue
                try:
                    pm = R.parse(mid)
                except ValueError:
                    if spellable(R.transpose(p, name, d)):
                        acc.violation(Viol('edge', 'unparsable-result', {'pitch': s, 'interval': name, 'direction': d}, None, mid))
                    continue
                # depth 2: every second edge from the state reached
                for name2 in names:
                    for d2 in DIRS:
                        exp2 = R.transpose(pm, name2, d2)
                        if not (spellable(pm) and spellable(exp2)):
                            continue
                        got2 = T(mid, name2, d2)
                        acc.count('transitions')
                        acc.count('paths2')
                        if got2 != R.spell(*exp2):
                            acc.violation(Viol('edge-depth2', 'wrong-spelling-from-reached-state',
                                               {'pitch': s, 'path': [[name, d], [name2, d2]]}, R.spell(*exp2), got2))
                        # composition law: when the two steps add up to a named interval, one step == two steps
                        if d == d2:
                            k = byval.get((iv[name][0] + iv[name2][0], iv[name][1] + iv[name2][1]))
                            if k is not None:
                                one = T(s, k, d)
                                acc.count('transitions')
                                acc.count('compositions')
                                if one != got2:
                                    acc.violation(Viol('law-composition', 'two-steps-differ-from-one',
                                                       {'pitch': s, 'path': [[name, d], [name2, d2]], 'sum': k}, one, got2))
        # named laws
        for d in DIRS:
            if T(s, 'P1', d) != s:
                acc.violation(Viol('law-unison', 'not-identity', {'pitch': s, 'direction': d}, s, T(s, 'P1', d)))
            o = T(s, 'octave', d)
            expo = R.spell(p[0], p[1], p[2] + (1 if d == 'up' else -1))
            if o != expo:
                acc.violation(Viol('law-octave', 'name-not-kept', {'pitch': s, 'direction': d}, expo, o))
            a = T(s, 'P4', d)
            b = T(a, 'P5', d) if isinstance(a, str) else a
            if spellable(R.transpose(p, 'P4', d)) and b != o:
                acc.violation(Viol('law-fourth-fifth', 'not-an-octave', {'pitch': s, 'direction': d}, o, {'P4': a, 'then P5': b}))
            acc.count('transitions', 4)
    return acc


def run(ctx):
    ctx.rule = ('complete grid of (pitch, interval, direction) edges; from every reached state every second edge '
                '(depth-2 paths); non-trivial = edge whose exact result is spellable with <= 2 accidentals')
    ctx.bounds = {'letters': 7, 'alterations': '-2..2', 'octaves': '0..8', 'intervals': 40, 'directions': 2, 'depth': 2}
    ctx.assumptions = ['reference = kv/pitchref.py (letters Z7 + C-major semitone table, intervals from their names)']
    # the interval vocabulary itself
    got = sorted(kp.AVAILABLE_INTERVALS)
    ctx.count('transitions')
    # the 40 named intervals must be available (further names would not contradict the property)
    if not set(R.INTERVAL_NAMES) <= set(got):
        ctx.violation(Viol('interval-names', 'a-named-interval-is-missing', {'q': 'AVAILABLE_INTERVALS'}, sorted(R.INTERVAL_NAMES), got))
    if not set(R.INTERVAL_NAMES) <= set(kp.IntervalsByName):
        ctx.violation(Viol('interval-names', 'a-named-interval-is-missing', {'q': 'IntervalsByName'}, sorted(R.INTERVAL_NAMES), sorted(kp.IntervalsByName)))
    for bad in ('Q3', 'M22', '', 'x'):
        try:
            kp.loads('**kern\n4c\n*-\n')[0].to_transposed(bad, 'up')
            ctx.violation(Viol('interval-names', 'unknown-interval-accepted', {'interval': bad}, 'ValueError', 'returned'))
        except ValueError:
            pass
        except Exception as e:  # noqa
            ctx.violation(Viol('interval-names', 'unknown-interval-wrong-exception', {'interval': bad}, 'ValueError', type(e).__name__))
    ctx.sample({'pitch': 'cc#', 'interval': 'M3', 'direction': 'up', 'expected': R.spell(*R.transpose(('C', 1, 5), 'M3', 'up'))})
    ctx.sample({'pitch': 'BB-', 'path': [['d5', 'down'], ['A4', 'down']], 'sum': 'octave'})
    step = 5
    ctx.pmap(_job, [(lo, min(lo + step, len(GRID)), ctx.tier) for lo in range(0, len(GRID), step)], chunksize=1)
    ctx.count('traces', ctx.n.get('evaluations', 0) + ctx.n.get('paths2', 0))


def replay(case):
    acc = Acc()
    if 'q' in case or ('interval' in case and 'pitch' not in case):
        ctx_like = Acc()
        got = sorted(kp.AVAILABLE_INTERVALS)
        if not set(R.INTERVAL_NAMES) <= set(got):
            ctx_like.violation(Viol('interval-names', 'a-named-interval-is-missing', case, None, got))
        return ctx_like.viol
    p = R.parse(case['pitch'])
    i = GRID.index(p) if p in GRID else None
    if i is not None:
        full = Acc()
        full_d = _job((i, i + 1, 'thorough'))
        return [v for v in full_d.viol]
    return acc.viol
