"""C20 - File and command-line paths equal the in-memory API.
Space: documents x line ends {LF, CRLF, CR} x {final newline, none} x {ASCII, non-ASCII lyrics, Unicode line-boundary characters inside a cell} x option
sets for dump; CLI layouts: single file (with / without --output_path), directory non-recursive and recursive (nested directories, both suffixes,
one file with an import error, unrelated files).  Oracle: the in-memory API on the same text.  Everything happens in a fresh temporary directory."""
import os
import shutil
import subprocess
import sys
import tempfile

import kernpy as kp

from .. import alphabet as A
from .. import explore as X
from ..core import Acc, Viol, digest

TC = kp.TokenCategory
E = kp.Encoding
EOLS = {'LF': '\n', 'CRLF': '\r\n', 'CR': '\r'}
BOUNDARY = {'U+2028': ' ', 'U+2029': ' ', 'NEL': '\x85', 'FF': '\x0c', 'VT': '\x0b', 'FS': '\x1c', 'GS': '\x1d', 'RS': '\x1e'}
OPTS = [
    ('default', {}),
    ('ekern', {'encoding': E.eKern}),
    ('bekern-kern-only', {'encoding': E.bEkern, 'spine_types': ['**kern']}),
    ('exclude-decoration', {'exclude': {TC.DECORATION}}),
    ('include-core', {'include': {TC.CORE, TC.STRUCTURAL, TC.BARLINES}}),
    ('ids-0', {'spine_ids': [0]}),
    ('range-1-1', {'from_measure': 1, 'to_measure': 1}),
    ('bkern', {'encoding': E.bKern}),
    ('types-text', {'spine_types': ['**text', '**kern']}),
    ('cli-options', {'spine_types': ['**kern'], 'include': 'BEKERN', 'encoding': E.eKern}),
]


def kw_of(o):
    return {k: (set(kp.BEKERN_CATEGORIES) if v == 'BEKERN' else v) for k, v in o.items()}


def observations(doc, errs):
    out = {}
    for name, fn in (('kern', lambda: kp.dumps(doc)), ('ekern', lambda: kp.dumps(doc, encoding=E.eKern)),
                     ('tokens', lambda: [(t.encoding, t.category.name) for t in doc.get_all_tokens()]),
                     ('measures', lambda: doc.measures_count()), ('stages', lambda: len(doc.tree.stages))):
        try:
            out[name] = fn()
        except Exception as e:  # noqa
            out[name] = 'EXC ' + type(e).__name__
    out['errors'] = [(getattr(e, 'line', None), e.encoding) for e in errs]
    return out


def doc_texts(tier, seed):
    """(name, list of lines, flavour)"""
    out = []
    hs = [['**kern'], ['**kern', '**text'], ['**text', '**kern', '**kern'], ['**dynam', '**kern', '**harm']]
    seqs = [['k', 'b', 'd', 'd', 'S0', 'd', 'J0', 'b', 'd', 'c', 'd', 'b'], ['i', 'b', 'd', 'g', 'd', 'z', 'b', 'd']]
    for h in hs:
        for si, seq in enumerate(seqs):
            for sd in range(seed, seed + (2 if tier == 'quick' else 5)):
                m = X.seq_model(h, seq, sd, cap=6, pre=('!!!COM: Bach',) if sd % 2 else ())
                text_cells = [c.src for c in m.cells() if A.OWN_CAT.get(h[c.spine])]
                flav = 'non-ascii' if any(ord(ch) > 127 for t in text_cells for ch in t) else 'ascii'
                out.append((f'{"+".join(h)}/{si}#{sd}', m.lines(), flav))
    # Unicode line-boundary characters inside a lyrics cell
    for bn, ch in BOUNDARY.items():
        lines = ['**kern\t**text', '*clefG2\t*', '=1\t=1', f'4c\tla{ch}la', '4d\tlu', '==\t==', '*-\t*-']
        out.append((f'boundary-{bn}', lines, 'line-boundary-character-in-cell'))
    # long files whose lyrics are dense runs of multi-byte characters: whatever block size a reader uses (multiples of 512 up to the file
    # length), some padding variant puts a block boundary INSIDE a character (see straddled_boundaries in the evidence)
    for ch, nm in (('ñ', '2-byte'), ('漢', '3-byte'), ('𝄞', '4-byte')):
        for pad in range(8):
            lines = ['!!!COM: ' + 'x' * pad, '**kern\t**text', '*clefG2\t*', '=1\t=1']
            for r in range(100 if tier == 'quick' else 300):
                lines.append(f'4c\t{ch * 40}')
                if r % 10 == 9:
                    lines.append(f'={r // 10 + 2}\t={r // 10 + 2}')
            lines += ['==\t==', '*-\t*-']
            out.append((f'long-{nm}-pad{pad}', lines, 'non-ascii-long'))
    out.append(('with-error', ['**kern\t**text', '=1\t=1', '4c\tla', '4zz\tlu', '==\t==', '*-\t*-'], 'ascii'))
    return out


def straddled(docs):
    """for the long non-ASCII documents: how many multiples of 512 (LF text) fall inside a multi-byte character in at least one padding variant"""
    inside, total = set(), set()
    for name, lines, flav in docs:
        if flav != 'non-ascii-long':
            continue
        b = ('\n'.join(lines) + '\n').encode('utf-8')
        fam = name.rsplit('-pad', 1)[0]
        for off in range(512, len(b), 512):
            total.add((fam, off))
            if b[off] & 0xC0 == 0x80:          # a continuation byte starts the next block
                inside.add((fam, off))
    return len(inside), len(total)


def check_file_api(acc, tmp, name, lines, flav, tier):
    """load == loads, dump == dumps for every line-end / final-newline variant"""
    for en, eol in EOLS.items():
        for final in (True, False):
            if flav == 'non-ascii-long' and (en == 'CR' or not final):
                continue
            text = eol.join(lines) + (eol if final else '')
            case = {'doc': name, 'text': text, 'eol': en, 'final_newline': final, 'flavour': flav}
            p = os.path.join(tmp, 'in', f'{digest((name, en, final))}.krn')
            os.makedirs(os.path.dirname(p), exist_ok=True)
            with open(p, 'wb') as f:
                f.write(text.encode('utf-8'))
            acc.count('evaluations')
            acc.count('transitions', 2)
            acc.state((name, en, final))
            if en != 'LF' or not final or flav != 'ascii':
                acc.nontriv((name, en, final))
            cls = 'load-vs-loads' if flav != 'line-boundary-character-in-cell' else 'load-vs-loads-line-boundary-character-in-cell'
            try:
                d1, e1 = kp.load(p)
                d2, e2 = kp.loads(text)
                o1, o2 = observations(d1, e1), observations(d2, e2)
            except Exception as e:  # noqa
                acc.violation(Viol(cls, 'raises', case, None, f'{type(e).__name__}: {str(e)[:80]}'))
                continue
            acc.count('traces')
            acc.outcome(digest(o1))
            if o1 != o2:
                k = next(k for k in o1 if o1[k] != o2[k])
                acc.violation(Viol(cls, 'loading-the-file-differs-from-loading-its-text', dict(case, observation=k), str(o2[k])[:300], str(o1[k])[:300]))
            # the reference is the LF text with final newline: line ends must not matter
            if en != 'LF' or not final:
                d3, e3 = kp.loads('\n'.join(lines) + '\n')
                o3 = observations(d3, e3)
                if o2 != o3 and flav != 'line-boundary-character-in-cell':
                    k = next(k for k in o2 if o2[k] != o3[k])
                    acc.violation(Viol('line-ends', 'result-depends-on-line-ends-or-final-newline', dict(case, observation=k), str(o3[k])[:300], str(o2[k])[:300]))
            if not final or en != 'LF':
                continue
            # dump == dumps (incl. missing directories)
            for on, o in OPTS:
                if flav == 'non-ascii-long' and on not in ('default', 'ekern'):
                    continue
                kw = kw_of(o)
                try:
                    s = kp.dumps(d2, **kw)
                except Exception:
                    continue        # e.g. range on a score without measures: C07
                target = os.path.join(tmp, 'out', digest((name, on)), 'nested', 'x.krn') if on in ('default', 'ekern') else os.path.join(tmp, 'out', f'{digest((name, on))}.krn')
                if on not in ('default', 'ekern'):
                    os.makedirs(os.path.dirname(target), exist_ok=True)
                acc.count('transitions', 2)
                try:
                    r = kp.dump(d2, target, **kw_of(o))
                    b = open(target, 'rb').read()
                except Exception as e:  # noqa
                    acc.violation(Viol('dump-vs-dumps', 'dump-raises', dict(case, options=on), 'file written', f'{type(e).__name__}: {str(e)[:80]}'))
                    continue
                if b.decode('utf-8', 'replace') != s:
                    acc.violation(Viol('dump-vs-dumps', 'file-content-differs-from-dumps', dict(case, options=on), s[:300], b.decode('utf-8', 'replace')[:300]))


def same_length_variant(lines):
    """another document of exactly the same byte length: the first plain note gets the next pitch letter"""
    import re
    out = list(lines)
    for i, ln in enumerate(out):
        if ln.startswith(('*', '!', '=')):
            continue
        cells = ln.split('\t')
        for j, c in enumerate(cells):
            m = re.fullmatch(r'(\d+\.*)([a-fA-F])(\2*)([#\-n]*)', c)
            if m:
                nxt = chr(ord(m.group(2)) + 1)
                cells[j] = m.group(1) + nxt * (1 + len(m.group(3))) + m.group(4)
                out[i] = '\t'.join(cells)
                return out
    return None


def check_path_reuse(acc, tmp, docs):
    """history on ONE path: the file is rewritten (same length, other length, removed and re-created) between loads; every load must equal loads(current text)"""
    p = os.path.join(tmp, 'in', 'reused.krn')
    os.makedirs(os.path.dirname(p), exist_ok=True)
    picked = [(n, l) for n, l, f in docs if f in ('ascii', 'non-ascii') and same_length_variant(l)][:6]
    for name, lines in picked:
        a = '\n'.join(lines) + '\n'
        b = '\n'.join(same_length_variant(lines)) + '\n'
        other = '\n'.join(docs[0][1]) + '\n'
        seq = [('first', a), ('same-length-rewrite', b), ('back', a), ('same-length-rewrite', b), ('other-document', other), ('same-length-rewrite-after-other', b),
               ('removed-and-recreated', a), ('same-length-rewrite', b), ('back', a)]
        for step, (what, text) in enumerate(seq):
            if what == 'removed-and-recreated' and os.path.exists(p):
                os.unlink(p)
            with open(p, 'wb') as f:
                f.write(text.encode('utf-8'))
            acc.count('evaluations')
            acc.count('transitions', 2)
            acc.nontriv(('reuse', name, step))
            case = {'doc': name, 'text': text, 'path_reuse': [w for w, _ in seq[:step + 1]], 'flavour': 'ascii'}
            try:
                d1, e1 = kp.load(p)
                d2, e2 = kp.loads(text)
                o1, o2 = observations(d1, e1), observations(d2, e2)
            except Exception as e:  # noqa
                acc.violation(Viol('same-path-rewritten', 'raises', case, None, f'{type(e).__name__}: {str(e)[:80]}'))
                continue
            acc.count('traces')
            if o1 != o2:
                k = next(k for k in o1 if o1[k] != o2[k])
                acc.violation(Viol('same-path-rewritten', 'loading-the-file-differs-from-loading-its-current-text', dict(case, observation=k, step=what), str(o2[k])[:300], str(o1[k])[:300]))
                break


def cli(tmp, args, src):
    env = {'PATH': os.environ.get('PATH', ''), 'PYTHONPATH': src, 'PYTHONUTF8': '1', 'PYTHONHASHSEED': '0', 'PYTHONDONTWRITEBYTECODE': '1', 'HOME': tmp}
    return subprocess.run([sys.executable, '-m', 'kernpy'] + args, cwd=tmp, env=env, capture_output=True, text=True, timeout=300)


def snapshot_tree(root):
    out = {}
    for d, _, fs in os.walk(root):
        for f in fs:
            p = os.path.join(d, f)
            out[os.path.relpath(p, root)] = open(p, 'rb').read()
    return out


def expected_ekern(text):
    d, errs = kp.loads(text)
    if errs:
        return None
    return kp.dumps(d, spine_types=['**kern'], include=set(kp.BEKERN_CATEGORIES), encoding=E.eKern)


def universal(text):
    return text.replace('\r\n', '\n').replace('\r', '\n')


def check_cli(acc, tmp, docs, src, tier):
    texts = {n: '\n'.join(l) + '\n' for n, l, f in docs if not n.startswith('boundary')}
    names = [n for n in texts if n != 'with-error']
    # ---- single-file mode --------------------------------------------------------------------------
    root = os.path.join(tmp, 'single')
    os.makedirs(os.path.join(root, 'o'))
    singles = names[:3 if tier == 'quick' else 10] + [n for n in names if n.startswith('long-') and n.endswith(('pad1', 'pad2'))][:2 if tier == 'quick' else 6]
    for i, n in enumerate(singles):
        for with_out in (False, True):
            src_p = os.path.join(root, f's{i}_{int(with_out)}.krn')
            open(src_p, 'wb').write(texts[n].encode('utf-8'))
            out_p = os.path.join(root, 'o', f'res{i}' + ['.ekrn', '.ekern', '.txt', ''][i % 4]) if with_out else src_p[:-4] + '.ekrn'
            before = snapshot_tree(root)
            r = cli(root, ['--kern2ekern', '--input_path', src_p] + (['--output_path', out_p] if with_out else []), src)
            acc.count('transitions')
            acc.count('evaluations')
            acc.count('cli_invocations')
            case = {'doc': n, 'text': texts[n], 'mode': 'single-file', 'direction': 'kern2ekern', 'output_path': with_out}
            exp = expected_ekern(texts[n])
            after = snapshot_tree(root)
            rel = os.path.relpath(out_p, root)
            if r.returncode != 0 or rel not in after:
                acc.violation(Viol('cli-kern2ekern', 'no-output-written', case, 'file', (r.returncode, r.stderr[-200:])))
                continue
            acc.count('traces')
            got = after[rel].decode('utf-8', 'replace')
            if got != exp:
                acc.violation(Viol('cli-kern2ekern', 'output-differs-from-the-api', case, exp[:300], got[:300]))
            changed = [k for k in after if k != rel and before.get(k) != after[k]]
            if changed or set(after) - set(before) - {rel}:
                acc.violation(Viol('cli-kern2ekern', 'other-files-touched', case, None, changed + sorted(set(after) - set(before) - {rel})))
            # back: ekern -> kern, and again kern -> ekern must give the original ekern
            back_p = os.path.join(root, 'o', f'back{i}_{int(with_out)}.krn')
            r2 = cli(root, ['--ekern2kern', '--input_path', out_p, '--output_path', back_p], src)
            acc.count('transitions')
            acc.count('cli_invocations')
            case2 = dict(case, direction='ekern2kern')
            if r2.returncode != 0 or not os.path.exists(back_p):
                acc.violation(Viol('cli-ekern2kern', 'no-output-written', case2, 'file', (r2.returncode, r2.stderr[-200:])))
                continue
            k = open(back_p, 'rb').read().decode('utf-8', 'replace')
            if k != kp.get_kern_from_ekern(universal(got)):
                acc.violation(Viol('cli-ekern2kern', 'output-differs-from-the-api', case2, kp.get_kern_from_ekern(got)[:300], k[:300]))
            again_p = os.path.join(root, 'o', f'again{i}_{int(with_out)}.ekrn')
            r3 = cli(root, ['--kern2ekern', '--input_path', back_p, '--output_path', again_p], src)
            acc.count('transitions')
            acc.count('cli_invocations')
            if r3.returncode != 0 or not os.path.exists(again_p):
                acc.violation(Viol('cli-round-trip', 'no-output-written', case2, 'file', (r3.returncode, r3.stderr[-200:])))
            elif open(again_p, 'rb').read().decode('utf-8', 'replace') != got:
                acc.violation(Viol('cli-round-trip', 'ekern-to-kern-to-ekern-is-not-the-identity', case2, got[:300], open(again_p, 'rb').read().decode('utf-8', 'replace')[:300]))
    # a single file with an import error: nothing may be written
    ep = os.path.join(root, 'err.krn')
    open(ep, 'wb').write(texts['with-error'].encode('utf-8'))
    r = cli(root, ['--kern2ekern', '--input_path', ep], src)
    acc.count('transitions')
    acc.count('cli_invocations')
    if os.path.exists(ep[:-4] + '.ekrn') and expected_ekern(texts['with-error']) is None:
        acc.violation(Viol('cli-kern2ekern', 'output-written-for-a-file-with-import-errors', {'doc': 'with-error', 'text': texts['with-error'], 'mode': 'single-file'}, 'no file', 'file'))
    # ---- directory mode ----------------------------------------------------------------------------
    for recursive in (False, True):
        root = os.path.join(tmp, 'dir_r' if recursive else 'dir')
        layout = {'a.krn': names[0], 'b.kern': names[1 % len(names)], 'bad.krn': 'with-error', 'sub/c.krn': names[2 % len(names)],
                  'sub/deep/d.kern': names[3 % len(names)], 'sub/e.krn': names[4 % len(names)], 'sub/a.krn': names[5 % len(names)], 'sub/deep/a.krn': names[6 % len(names)]}
        for rel, n in layout.items():
            p = os.path.join(root, rel)
            os.makedirs(os.path.dirname(p), exist_ok=True)
            open(p, 'wb').write(texts[n].encode('utf-8'))
        try:      # a symbolic link to another score of the same directory is an input file like any other
            os.symlink(os.path.join(root, 'a.krn'), os.path.join(root, 'link_to_a.krn'))
            layout['link_to_a.krn'] = layout['a.krn']
        except OSError:
            pass
        open(os.path.join(root, 'notes.txt'), 'wb').write(b'unrelated\n')
        open(os.path.join(root, 'sub', 'readme.md'), 'wb').write(b'unrelated\n')
        before = snapshot_tree(root)
        r = cli(root, ['--kern2ekern', '--input_path', root] + (['-r'] if recursive else []), src)
        acc.count('transitions')
        acc.count('evaluations')
        acc.count('cli_invocations')
        after = snapshot_tree(root)
        case = {'mode': 'directory', 'recursive': recursive, 'direction': 'kern2ekern', 'layout': layout}
        exp_new = {}
        for rel, n in layout.items():
            if ('/' in rel) and not recursive:
                continue
            e = expected_ekern(texts[n])
            if e is not None:
                exp_new[os.path.splitext(rel)[0] + '.ekrn'] = e
        new = {k: v.decode('utf-8', 'replace') for k, v in after.items() if k not in before}
        acc.count('traces')
        if set(new) != set(exp_new):
            acc.violation(Viol('cli-directory', 'set-of-written-files-differs', case, sorted(exp_new), sorted(new)))
        for k in set(new) & set(exp_new):
            if new[k] != exp_new[k]:
                acc.violation(Viol('cli-directory', 'output-differs-from-the-api', dict(case, file=k), exp_new[k][:300], new[k][:300]))
        if any(before[k] != after.get(k) for k in before):
            acc.violation(Viol('cli-directory', 'other-files-touched', case, None, [k for k in before if before[k] != after.get(k)]))
        if 'bad.krn' in layout and r.returncode != 0:
            acc.violation(Viol('cli-directory', 'stops-at-a-file-with-import-errors', case, 'continues', r.stderr[-200:]))
        # ekern2kern over the same tree: the .ekrn (and one .ekern) files just written -> .krn (overwriting the originals next to them)
        if 'a.ekrn' in after:
            shutil.copy(os.path.join(root, 'a.ekrn'), os.path.join(root, 'z.ekern'))
        before2 = snapshot_tree(root)
        r = cli(root, ['--ekern2kern', '--input_path', root] + (['-r'] if recursive else []), src)
        acc.count('transitions')
        acc.count('cli_invocations')
        after2 = snapshot_tree(root)
        case2 = dict(case, direction='ekern2kern')
        for rel, content in before2.items():
            if not rel.endswith(('.ekrn', '.ekern')) or (('/' in rel) and not recursive):
                continue
            out_rel = os.path.splitext(rel)[0] + '.krn'
            exp = kp.get_kern_from_ekern(universal(content.decode('utf-8', 'replace')))
            got = after2.get(out_rel, b'').decode('utf-8', 'replace')
            if got != exp:
                acc.violation(Viol('cli-directory', 'output-differs-from-the-api', dict(case2, file=out_rel), exp[:300], got[:300]))
        untouched = [k for k in before2 if not (os.path.splitext(k)[0] + '.ekrn' in before2 or os.path.splitext(k)[0] + '.ekern' in before2) or k.endswith(('.ekrn', '.ekern'))]
        bad = [k for k in untouched if before2[k] != after2.get(k)]
        if bad:
            acc.violation(Viol('cli-directory', 'other-files-touched', case2, None, bad))
    acc.sample({'cli': 'python -m kernpy --kern2ekern --input_path <dir> -r', 'layout': list(layout)}, cap=2)


def check_long_cells(acc, tmp, tier):
    """few rows, VERY long multi-byte lyric cells: files of 320 KiB (quick) and 1.1 MiB (thorough) whose byte offsets 256 KiB / 1 MiB fall INSIDE a character
    (padding found by search): load == loads, and dump writes exactly dumps (a non-ASCII export longer than 256 KiB)"""
    sizes = [(45, 262144)] if tier == 'quick' else [(45, 262144), (155, 1048576)]
    for nrows, boundary in sizes:
        body = ['**kern\t**text', '*clefG2\t*', '=1\t=1'] + [f'4c\t{"漢" * 2400}{r}' for r in range(nrows)] + ['==\t==', '*-\t*-']
        pad = None
        for k in range(0, 8):
            b = ('!!!PAD: p' + 'x' * k + '\n' + '\n'.join(body) + '\n').encode('utf-8')
            if len(b) > boundary and b[boundary] & 0xC0 == 0x80:
                pad = k
                break
        if pad is None:
            acc.caps.append(f'long cells: no padding puts byte {boundary} inside a character')
            continue
        text = '!!!PAD: p' + 'x' * pad + '\n' + '\n'.join(body) + '\n'
        case = {'doc': f'long-cells-{boundary}', 'text': f'({nrows} rows with a lyric cell of 2 400 three-byte characters, padded by {pad})', 'long_cells': tier, 'flavour': 'non-ascii-long'}
        p = os.path.join(tmp, 'in', f'longcells{boundary}.krn')
        os.makedirs(os.path.dirname(p), exist_ok=True)
        with open(p, 'wb') as f:
            f.write(text.encode('utf-8'))
        acc.count('evaluations')
        acc.count('transitions', 4)
        acc.nontriv(('long-cells', boundary))
        try:
            d1, e1 = kp.load(p)
            d2, e2 = kp.loads(text)
            o1, o2 = observations(d1, e1), observations(d2, e2)
        except Exception as e:  # noqa
            acc.violation(Viol('load-vs-loads', 'raises', case, None, f'{type(e).__name__}: {str(e)[:80]}'))
            continue
        acc.count('traces')
        if o1 != o2:
            k = next(k for k in o1 if o1[k] != o2[k])
            acc.violation(Viol('load-vs-loads', 'loading-the-file-differs-from-loading-its-text', dict(case, observation=k), str(o2[k])[:200], str(o1[k])[:200]))
        for on, kw in (('default', {}), ('ekern', {'encoding': E.eKern})):
            s = kp.dumps(d2, **kw)
            target = os.path.join(tmp, 'out', f'longcells{boundary}_{on}', 'x.krn')
            try:
                kp.dump(d2, target, **kw)
                b = open(target, 'rb').read()
            except Exception as e:  # noqa
                acc.violation(Viol('dump-vs-dumps', 'dump-raises', dict(case, options=on), 'file written', f'{type(e).__name__}: {str(e)[:80]}'))
                continue
            if b != s.encode('utf-8'):
                acc.violation(Viol('dump-vs-dumps', 'file-content-differs-from-dumps', dict(case, options=on), f'{len(s.encode("utf-8"))} bytes', f'{len(b)} bytes'))


WIDTH_DOCS = {
    1: ['**kern', '*clefG2', '=1', '4c', '8d', '=2', '2e', '==', '*-'],
    2: ['**kern\t**text\t**kern', '*clefF4\t*\t*clefG2', '=1\t=1\t=1', '4C\tla\t4cc', '4D\tlu\t4dd#L', '==\t==\t==', '*-\t*-\t*-'],
    3: ['**kern\t**kern\t**dynam\t**kern', '*clefF4\t*clefC3\t*\t*clefG2', '=1\t=1\t=1\t=1', '4C\t4e\tf\t4cc', '4D\t4f#\tp\t4dd', '==\t==\t==\t==', '*-\t*-\t*-\t*-'],
    4: ['**kern\t**kern\t**kern\t**kern', '*clefF4\t*clefC3\t*clefG2\t*clefG2', '=1\t=1\t=1\t=1', '4C\t4e\t4g\t4cc', '==\t==\t==\t==', '*-\t*-\t*-\t*-'],
}


def check_converter_sequences(acc, tmp, src):
    """history: the converters applied to files with 1, 2, 3, 4 kern spines one after the other - in ONE process through the API functions the CLI calls
    (both orders), and through the CLI's directory mode with the files named in both orders - must each write what the API produces for that file alone"""
    texts = {w: '\n'.join(l) + '\n' for w, l in WIDTH_DOCS.items()}
    for order in ([1, 2, 3, 4, 1], [4, 3, 2, 1, 4], [2, 4, 1, 3, 2]):
        root = os.path.join(tmp, 'seq' + ''.join(map(str, order)))
        os.makedirs(root)
        for i, w in enumerate(order):
            ip, op, bp = os.path.join(root, f'f{i}.krn'), os.path.join(root, f'f{i}.ekrn'), os.path.join(root, f'g{i}.krn')
            open(ip, 'wb').write(texts[w].encode('utf-8'))
            case = {'doc': f'{w} kern spines', 'text': texts[w], 'converter_sequence': order[:i + 1], 'flavour': 'ascii'}
            acc.count('evaluations')
            acc.count('transitions', 2)
            acc.nontriv(('convseq', tuple(order), i))
            try:
                kp.kern_to_ekern(ip, op)
                got = open(op, 'rb').read().decode('utf-8', 'replace')
                kp.ekern_to_krn(op, bp)
                back = open(bp, 'rb').read().decode('utf-8', 'replace')
            except Exception as e:  # noqa
                acc.violation(Viol('converter-sequence-in-one-process', 'raises', case, None, f'{type(e).__name__}: {str(e)[:80]}'))
                continue
            acc.count('traces')
            exp = expected_ekern(texts[w])
            if got != exp:
                acc.violation(Viol('converter-sequence-in-one-process', 'output-differs-from-the-api', case, exp[:300], got[:300]))
            elif back != kp.get_kern_from_ekern(got):
                acc.violation(Viol('converter-sequence-in-one-process', 'ekern2kern-output-differs-from-the-api', case, kp.get_kern_from_ekern(got)[:300], back[:300]))
    for naming in ('ascending', 'descending'):
        root = os.path.join(tmp, 'dirw_' + naming)
        os.makedirs(root)
        layout = {}
        for k, w in enumerate([1, 2, 3, 4] if naming == 'ascending' else [4, 3, 2, 1]):
            for rep in range(2):
                layout[f'{"abcd"[k]}{rep}.krn'] = w
        for rel, w in layout.items():
            open(os.path.join(root, rel), 'wb').write(texts[w].encode('utf-8'))
        r = cli(root, ['--kern2ekern', '--input_path', root], src)
        acc.count('transitions')
        acc.count('evaluations')
        acc.count('cli_invocations')
        after = snapshot_tree(root)
        case = {'mode': 'directory-of-different-widths', 'naming': naming, 'layout': layout, 'direction': 'kern2ekern'}
        for rel, w in layout.items():
            got = after.get(rel[:-4] + '.ekrn', b'').decode('utf-8', 'replace')
            if got != expected_ekern(texts[w]):
                acc.violation(Viol('cli-directory', 'output-differs-from-the-api', dict(case, file=rel), expected_ekern(texts[w])[:300], got[:300]))
                break


def run(ctx):
    docs = doc_texts(ctx.tier, ctx.seed)
    src = os.path.abspath(os.environ.get('KERNPY_SRC', '/repo'))
    ctx.rule = ('documents x 3 line ends x final newline yes/no (load vs loads), x 10 option sets (dump vs dumps, incl. missing directories), CLI single-file / directory '
                '/ recursive layouts both directions; non-trivial = variant other than plain ASCII + LF + final newline')
    ctx.bounds = {'documents': len(docs), 'line_ends': list(EOLS), 'option_sets': len(OPTS), 'line_boundary_characters': list(BOUNDARY)}
    ctx.assumptions = ['UTF-8 preferred encoding (PYTHONUTF8=1 for the checks and for the CLI subprocesses)',
                       'the ekern->kern converter reads in text mode, so its input is compared after universal-newline translation',
                       'CLI --output_path directories exist (only dump is claimed to create missing directories)']
    ins, tot = straddled(docs)
    ctx.bounds['block_boundaries_inside_a_multibyte_character'] = f'{ins} of {tot} multiples of 512 in the long documents (3 character widths)'
    if ins < tot:
        ctx.caps.append(f'long non-ASCII documents: only {ins} of {tot} block boundaries fall inside a character in some padding variant')
    tmp = tempfile.mkdtemp(prefix='kv20_')
    try:
        for name, lines, flav in docs:
            check_file_api(ctx, tmp, name, lines, flav, ctx.tier)
        check_path_reuse(ctx, tmp, docs)
        ctx.sample({'doc': docs[1][0], 'text': '\r\n'.join(docs[1][1]), 'variant': 'CRLF, no final newline'})
        check_cli(ctx, tmp, docs, src, ctx.tier)
        check_converter_sequences(ctx, tmp, src)
        check_long_cells(ctx, tmp, ctx.tier)
    finally:
        shutil.rmtree(tmp, ignore_errors=True)


def replay(case):
    acc = Acc()
    tmp = tempfile.mkdtemp(prefix='kv20_')
    src = os.path.abspath(os.environ.get('KERNPY_SRC', '/repo'))
    try:
        if 'long_cells' in case:
            check_long_cells(acc, tmp, case['long_cells'])
            return acc.viol
        if 'converter_sequence' in case or case.get('mode') == 'directory-of-different-widths':
            check_converter_sequences(acc, tmp, src)
            return acc.viol
        if case.get('mode') in ('single-file', 'directory'):
            check_cli(acc, tmp, doc_texts('quick', 0), src, 'quick')
            vs = [v for v in acc.viol if v['case'].get('mode') == case['mode']]
            return vs
        if 'path_reuse' in case:
            check_path_reuse(acc, tmp, doc_texts('quick', case.get('seed', 0)))
            return acc.viol
        lines = None
        for eol in ('\r\n', '\r', '\n'):
            if eol in case['text']:
                lines = case['text'].split(eol)
                break
        if lines and lines[-1] == '':
            lines = lines[:-1]
        check_file_api(acc, tmp, case['doc'], lines, case.get('flavour', 'ascii'), 'quick')
        return acc.viol
    finally:
        shutil.rmtree(tmp, ignore_errors=True)
