"""C14 - The read-only API is pure and history-independent.
Explicit-state BFS over call histories on a live Document: state = canonical reflection snapshot of the document, of every mutable module-level
container / class attribute of kernpy, and of every option object handed to a call.  Invariants:
 (i)  module-level defaults and option objects are never modified (violation); a changed *document* snapshot spawns a new state that is explored further;
 (ii) all ordered pairs (op1, op2): op2 after op1 == op2 on a freshly imported copy;  (iii) two imports are indistinguishable;  (iv) op twice == op once.
If every call is a self-loop the reachable state set is {s0} and the search is closed at depth 1 for histories of ANY length."""
import contextlib
import itertools
import signal
import io
import os
import re
import tempfile

import kernpy as kp

from .. import alphabet as A
from .. import explore as X
from .. import snapshot as SN
from ..core import Acc, Viol, digest

TC = kp.TokenCategory
E = kp.Encoding


class _OpTimeout(BaseException):
    pass


_HANGING = set()


def toks(ts):
    return [(t.encoding, t.category.name) for t in ts]


def norm_graph(s):
    ids = {}

    def ren(m):
        return ids.setdefault(m.group(0), f'{m.group(1)}{len(ids)}')
    return re.sub(r'(node|#)\d+', ren, s)


def graph_stdout(doc):
    b = io.StringIO()
    with contextlib.redirect_stdout(b):
        kp.graph(doc, None)
    return norm_graph(b.getvalue())


def graph_file(doc):
    d = tempfile.mkdtemp(prefix='kv14_')
    try:
        p = os.path.join(d, 'g.dot')
        kp.graph(doc, p)
        return norm_graph(open(p, encoding='utf-8').read())
    finally:
        for f in os.listdir(d):
            os.unlink(os.path.join(d, f))
        os.rmdir(d)


def make_ops(nspines, M):
    """[(name, fn(doc, args) -> result, args)] - args are fresh option objects whose snapshot is compared before/after the call"""
    ops = []

    def add(name, fn, **args):
        ops.append((name, fn, args))

    for e in E:
        add(f'dumps:{e.name}', lambda d, a: kp.dumps(d, **a), encoding=e)
    add('dumps:default', lambda d, a: kp.dumps(d, **a))
    add('dumps:include-pitch', lambda d, a: kp.dumps(d, **a), include={TC.PITCH})
    add('dumps:exclude-decoration', lambda d, a: kp.dumps(d, **a), exclude={TC.DECORATION})
    add('dumps:include-list', lambda d, a: kp.dumps(d, **a), include=[TC.CORE, TC.STRUCTURAL, TC.BARLINES], exclude=[TC.REST])
    add('dumps:bekern-categories', lambda d, a: kp.dumps(d, **a), include=kp.BEKERN_CATEGORIES)
    add('dumps:bekern-categories-ekern', lambda d, a: kp.dumps(d, **a), include=kp.BEKERN_CATEGORIES, encoding=E.bEkern)
    add('dumps:types-kern', lambda d, a: kp.dumps(d, **a), spine_types=['**kern'])
    add('dumps:types-set', lambda d, a: kp.dumps(d, **a), spine_types={'**kern', '**text'})
    add('dumps:types-empty', lambda d, a: kp.dumps(d, **a), spine_types=[])
    for i in range(nspines):
        add(f'dumps:ids-{i}', lambda d, a: kp.dumps(d, **a), spine_ids=[i])
    add('dumps:ids-all-ekern', lambda d, a: kp.dumps(d, **a), spine_ids=list(range(nspines)), encoding=E.eKern)
    add('dumps:ids-empty', lambda d, a: kp.dumps(d, **a), spine_ids=[])
    for a_, b_ in [(1, 1), (1, M), (M, M), (2, M), (1, max(1, M - 1)), (None, 1), (M, None)]:
        if M >= 1 and (a_ is None or a_ <= M) and (b_ is None or (b_ >= (a_ or 1))):
            add(f'dumps:range-{a_}-{b_}', lambda d, a: kp.dumps(d, **a), from_measure=a_, to_measure=b_)
    add('dumps:range-ekern-filter', lambda d, a: kp.dumps(d, **a), from_measure=1, to_measure=max(M, 1), encoding=E.eKern, exclude={TC.BARLINES})
    # calls that raise
    add('dumps:bad-negative', lambda d, a: kp.dumps(d, **a), from_measure=-1, to_measure=1)
    add('dumps:bad-beyond', lambda d, a: kp.dumps(d, **a), from_measure=1, to_measure=M + 3)
    add('dumps:bad-reversed', lambda d, a: kp.dumps(d, **a), from_measure=3, to_measure=1)
    add('dumps:bad-include', lambda d, a: kp.dumps(d, **a), include={'PITCH'})
    add('dumps:bad-encoding', lambda d, a: kp.dumps(d, **a), encoding='nonsense')
    # the options-object API: one ExportOptions instance handed to Exporter.export_string / kp.export (its snapshot is compared before/after)
    add('export:options-default', lambda d, a: kp.Exporter().export_string(d, a['options']), options=kp.ExportOptions())
    add('export:options-ekern', lambda d, a: kp.Exporter().export_string(d, a['options']), options=kp.ExportOptions(kern_type=E.eKern, spine_types=['**kern']))
    add('export:options-deprecated-api', lambda d, a: kp.export(d, a['options']), options=kp.ExportOptions(token_categories=[c for c in TC if c != TC.DECORATION]))
    add('export:options-reused-from-smaller-document', lambda d, a: (kp.Exporter().export_string(kp.loads('**kern\n*clefG2\n=1\n4c\n*-\n')[0], a['options']),
                                                                    kp.Exporter().export_string(d, a['options']))[1], options=kp.ExportOptions())
    add('tokens', lambda d, a: toks(d.get_all_tokens()))
    add('token-encodings', lambda d, a: d.get_all_tokens_encodings())
    add('unique', lambda d, a: toks(d.get_unique_tokens()))
    add('unique-encodings', lambda d, a: d.get_unique_token_encodings())
    for f in ([TC.CORE], [TC.SIGNATURES, TC.BARLINES], [TC.COMMENTS], [TC.NOTE_REST], [TC.LYRICS, TC.DYNAMICS], [TC.INSTRUMENTS]):
        nm = '+'.join(c.name for c in f)
        add(f'tokens:{nm}', lambda d, a: toks(d.get_all_tokens(**a)), filter_by_categories=list(f))
        add(f'unique:{nm}', lambda d, a: toks(d.get_unique_tokens(**a)), filter_by_categories=list(f))
        add(f'freq:{nm}', lambda d, a: d.frequencies(**a), token_categories=list(f))
    add('freq', lambda d, a: d.frequencies())
    add('meta', lambda d, a: d.get_metacomments())
    add('meta:COM', lambda d, a: d.get_metacomments('COM'))
    add('meta:COM-clear', lambda d, a: d.get_metacomments('COM', clear=True))
    add('voices', lambda d, a: toks(d.get_voices()))
    add('spine_types', lambda d, a: kp.spine_types(d))
    add('spine_types:kern', lambda d, a: kp.spine_types(d, **a), headers=['**kern'])
    add('spine_types:text-dynam', lambda d, a: kp.spine_types(d, **a), headers=['**text', '**dynam'])
    add('spine_types:empty', lambda d, a: kp.spine_types(d, **a), headers=[])
    add('is_monophonic', lambda d, a: kp.is_monophonic(d))
    add('iter', lambda d, a: list(d))
    add('iter:first-only', lambda d, a: next(iter(d)))
    add('iter:abandoned-after-two', lambda d, a: [x for _, x in zip(range(2), d)])
    add('iter:nested', lambda d, a: list(itertools.islice(((x, y) for x in d for y in d), 5)))
    add('measures_count', lambda d, a: d.measures_count())
    add('first_measure', lambda d, a: d.get_first_measure())
    add('spine_ids', lambda d, a: d.get_spine_ids())
    add('header_nodes', lambda d, a: toks(d.get_header_nodes()))
    add('graph:stdout', lambda d, a: graph_stdout(d))
    add('graph:file', lambda d, a: graph_file(d))
    add('tree-text', lambda d, a: kp.TokenCategory.tree())
    add('valid', lambda d, a: sorted(c.name for c in TC.valid(**a)), include={TC.CORE}, exclude={TC.NOTE})
    return ops


def call(op, doc):
    name, fn, args = op
    import copy
    if name in _HANGING:
        return ('exc', 'operation-does-not-return'), False     # it did not return once already in this process: do not wait for it again
    a = {k: (copy.copy(v) if isinstance(v, (list, set, dict)) else (copy.deepcopy(v) if v.__class__.__name__ == 'ExportOptions' else v)) for k, v in args.items()}
    before = SN.digest([a])

    def _alarm(signum, frame):
        raise _OpTimeout()          # a BaseException, raised again every second: code under test that swallows Exception cannot absorb it
    old = signal.signal(signal.SIGALRM, _alarm)
    signal.setitimer(signal.ITIMER_REAL, 5.0, 1.0)
    try:
        r = ('ok', repr(fn(doc, a)))
    except _OpTimeout:
        r = ('exc', 'operation-does-not-return')
        _HANGING.add(name)
    except Exception as e:  # noqa
        r = ('exc', type(e).__name__)
    finally:
        signal.setitimer(signal.ITIMER_REAL, 0)
        signal.signal(signal.SIGALRM, old)
    changed = SN.digest([a]) != before
    return r, changed


DOCS = [
    ('full', ['**kern', '**text', '**dynam'], ['k', 'i', 'b', 'd', 'd', 'S0', 'd', 'c', 'J0', 'i', 'b', 'd', 'g', 'z', 'b', 'd'], ('!!!COM: Bach', '!!plain')),
    ('one-kern', ['**kern'], ['k', 'b', 'd', 'd', 'b', 'd', 'b'], ()),
    ('no-measures', ['**kern', '**text'], ['k'], ('!!!COM: x',)),
    ('no-clef', ['**kern'], ['b', 'd', 'b', 'd'], ()),
    ('two-kern-split', ['**kern', '**kern'], ['k', 'K', 'T', 'b', 'd', 'S0', 'd', 'b', 'd', 'J0', 'b', 'd'], ()),
    ('non-kern', ['**dynam', '**harm'], ['i', 'b', 'd', 'd', 'b'], ()),
    ('root-fing', ['**root', '**fing', '**kern'], ['k', 'b', 'd', 'c', 'd', 'b', 'X1', 'd', 'b'], ('!!!OTL: t',)),
]
ERR_TEXT = "!!!COM: e\n**kern\t**text\n*clefG2\t*\n=1\t=1\n4c\tla\n4zz\t.\n=2\t=2\n4cU 4e\tlu\n c4\t.\n==\t==\n*-\t*-\n"


def doc_texts(tier, seed):
    out = []
    for name, h, seq, pre in DOCS:
        for sd in ((seed,) if tier == 'quick' else (seed, seed + 1, seed + 2, seed + 5)):
            m = X.seq_model(h, seq, sd, cap=6, pre=pre)
            if m is not None:
                out.append((f'{name}#{sd}', m.text(), len(h)))
    out.append(('with-errors', ERR_TEXT, 2))
    if tier != 'quick':
        for i, h in enumerate(A.HDR_QUICK):
            m = X.seq_model(h, ['k', 'b', 'd', 'S0', 'd', 'J0', 'b', 'd', 'i', 'b'], seed + i, cap=6)
            out.append((f'hdr{i}', m.text(), len(h)))
    return out


def _doc_job(job):
    name, text, ns, tier = job
    acc = Acc()
    _HANGING.clear()
    doc, errs = kp.loads(text)
    try:
        M = doc.measures_count()
    except Exception:
        M = 0
    ops = make_ops(ns, M)
    mod0 = SN.digest(SN.module_roots())
    s0 = SN.digest([doc])
    case0 = {'doc': name, 'text': text}
    # reference results on a fresh import, per op (each on its own fresh copy)
    base = {}
    for op in ops:
        fresh, _ = kp.loads(text)
        base[op[0]], _ = call(op, fresh)
        acc.count('transitions')
    acc.state((name, s0))
    if base['dumps:default'][0] != 'ok' or base['tokens'][0] != 'ok':
        # vacuity guard: if even the default export raises on a fresh import, comparing histories with it proves nothing
        acc.violation(Viol('vacuity', 'default-export-or-token-listing-raises-on-a-fresh-import', dict(case0, op='dumps:default'), 'ok', base['dumps:default']))
    nerr = len([o for o in ops if base[o[0]][0] == 'exc'])
    acc.count('ops_that_raise', nerr)
    # (iii) two imports indistinguishable
    other, _ = kp.loads(text)
    for op in ops:
        r, _ = call(op, other)
        acc.count('transitions')
        if r != base[op[0]]:
            acc.violation(Viol('two-imports', 'results-differ-between-two-imports-of-the-same-text', dict(case0, op=op[0]), base[op[0]][1][:200], r[1][:200]))
    # (i) + (iv): every op on the live document: snapshot, option objects, module state, repeated call
    states = {s0: []}
    frontier = [[]]
    changing = []
    for op in ops:
        r1, ch1 = call(op, doc)
        s1 = SN.digest([doc])
        r2, ch2 = call(op, doc)
        acc.count('transitions', 2)
        acc.count('evaluations')
        acc.outcome((op[0], r1[0], digest(r1[1])))
        if ch1 or ch2:
            acc.violation(Viol('option-object', 'modified-by-the-call', dict(case0, op=op[0]), 'unchanged', 'changed'))
        if r1 != base[op[0]]:
            acc.violation(Viol('history', 'result-differs-from-a-fresh-import', dict(case0, history=[op[0]], op=op[0]), base[op[0]][1][:200], r1[1][:200]))
        if r2 != r1:
            acc.violation(Viol('repeat', 'second-call-returns-something-else', dict(case0, op=op[0]), r1[1][:200], r2[1][:200]))
        m1 = SN.digest(SN.module_roots())
        if m1 != mod0:
            acc.violation(Viol('shared-defaults', 'module-level-state-modified', dict(case0, op=op[0]), mod0, m1))
            mod0 = m1
        if s1 != s0:
            changing.append(op[0])
            acc.count('document_snapshot_changes')
    # (ii) all ordered pairs on the live document (continues from whatever state the document is in: histories chain)
    hist_len = 0
    for op1 in ops:
        for op2 in ops:
            call(op1, doc)
            r, _ = call(op2, doc)
            hist_len += 2
            acc.count('transitions', 2)
            acc.count('evaluations')
            acc.nontriv((name, op1[0], op2[0]))
            if r != base[op2[0]]:
                acc.violation(Viol('history', 'result-differs-from-a-fresh-import', dict(case0, history=[op1[0], op2[0]], op=op2[0]), base[op2[0]][1][:200], r[1][:200]))
        acc.count('traces')
    # all ordered TRIPLES over a reduced operation set (one operation per kind), each on a fresh import
    if tier != 'quick' or name.startswith(('full', 'two-kern-split')):
        kinds = ['dumps:default', 'dumps:eKern', 'dumps:agnosticKern', 'dumps:exclude-decoration', 'dumps:types-kern', 'dumps:ids-0', f'dumps:range-1-{M}', 'dumps:bad-reversed',
                 'tokens', 'unique:CORE', 'freq', 'meta:COM-clear', 'spine_types:kern', 'iter:first-only', 'graph:stdout', 'export:options-default']
        R = [o for o in ops if o[0] in kinds]
        fresh_doc, _ = kp.loads(text)
        for o1 in R:
            for o2 in R:
                for o3 in R:
                    call(o1, fresh_doc)
                    call(o2, fresh_doc)
                    r, _ = call(o3, fresh_doc)
                    acc.count('transitions', 3)
                    acc.count('evaluations')
                    if r != base[o3[0]]:
                        acc.violation(Viol('history', 'result-differs-from-a-fresh-import', dict(case0, history=[o1[0], o2[0], o3[0]], op=o3[0]), base[o3[0]][1][:200], r[1][:200]))
        acc.count('triples', len(R) ** 3)
    # all ordered triples of QUERY operations, each triple on its own FRESH import (narrow -> wide -> narrow sequences: on a long-lived object the
    # first unfiltered query would arm every cache once and for all)
    if tier != 'quick' or name.startswith(('full', 'two-kern-split', 'with-errors')):
        qnames = ['tokens', 'tokens:CORE', 'tokens:NOTE_REST', 'tokens:SIGNATURES+BARLINES', 'unique:CORE', 'unique:NOTE_REST', 'freq', 'freq:CORE', 'freq:NOTE_REST',
                  'freq:SIGNATURES+BARLINES', 'is_monophonic', 'meta:COM-clear', 'meta']
        Q = [o for o in ops if o[0] in qnames]
        for o1 in Q:
            for o2 in Q:
                for o3 in Q:
                    d3, _ = kp.loads(text)
                    call(o1, d3)
                    call(o2, d3)
                    r, _ = call(o3, d3)
                    acc.count('transitions', 3)
                    acc.count('evaluations')
                    if r != base[o3[0]]:
                        acc.violation(Viol('history', 'result-differs-from-a-fresh-import', dict(case0, history=[o1[0], o2[0], o3[0]], op=o3[0], fresh_triple=True), base[o3[0]][1][:200], r[1][:200]))
        acc.count('fresh_query_triples', len(Q) ** 3)
    s_end = SN.digest([doc])
    m_end = SN.digest(SN.module_roots())
    if m_end != mod0:
        acc.violation(Viol('shared-defaults', 'module-level-state-modified', dict(case0, op='(some pair)'), mod0, m_end))
    acc.count('history_length_on_one_object', hist_len)
    if s_end != s0 or changing:
        # the document object itself changed: not a violation by itself (only observable results count), but the closure argument no longer
        # applies - explore from the changed states: BFS over histories of the state-changing ops up to depth 12, all ops checked in every new state
        acc.count('docs_with_state_change')
        seen = {s0}
        front = [[]]
        depth = 0
        budget = 40          # distinct changed states expanded (a state-changing op usually changes the state on EVERY call: unbounded graph)
        while front and depth < 12 and budget > 0 and not acc.nviol:
            nxt = []
            for h in front:
                for cn in changing:
                    if budget <= 0:
                        break
                    budget -= 1
                    d, _ = kp.loads(text)
                    opmap = {o[0]: o for o in ops}
                    for x in h + [cn]:
                        call(opmap[x], d)
                    sd = SN.digest([d])
                    if sd in seen:
                        continue
                    seen.add(sd)
                    acc.state((name, sd))
                    nxt.append(h + [cn])
                    for op in ops:
                        d2, _ = kp.loads(text)
                        for x in h + [cn]:
                            call(opmap[x], d2)
                        r, _ = call(op, d2)
                        acc.count('transitions')
                        if r != base[op[0]]:
                            acc.violation(Viol('history', 'result-differs-from-a-fresh-import', dict(case0, history=h + [cn, op[0]], op=op[0]), base[op[0]][1][:200], r[1][:200]))
            front = nxt
            depth += 1
        if front and not acc.nviol:
            acc.caps.append(f'{name}: state-changing histories explored to depth {depth} / 40 expansions only')
    else:
        acc.count('docs_closed_at_depth_1')
    acc.sample({'doc': name, 'ops': [o[0] for o in ops][:12] + ['...'], 'n_ops': len(ops), 'pairs': len(ops) ** 2}, cap=1)
    return acc


LONG_SKIP = ('graph:', 'tree-text', 'iter:nested', 'export:options-reused-from-smaller-document', 'valid')


def _long_job(job):
    """a document far beyond the bounds (about 1 450 stages, 275 measures, four spines incl. lyrics): the same operations applied to three imports of the same
    text in three different orders (forward, backward, interleaved by thirds) and, on one of them, twice - every operation must answer the same on all three.
    Then measure excerpts in descending and in ascending order of their start on two further imports."""
    from .. import docspace as D
    seed, = job
    acc = Acc()
    text = D.giant_model(seed, rows=1100).text()
    case0 = {'doc': f'giant-1100#{seed}', 'text': '(giant document of 1 100 data rows)', 'long': [seed]}
    docs = [kp.loads(text)[0] for _ in range(3)]
    try:
        M = docs[0].measures_count()
    except Exception:
        M = 0
    ops = [o for o in make_ops(4, M) if not o[0].startswith(LONG_SKIP)]
    mod0 = SN.digest(SN.module_roots())
    orders = [list(ops), list(reversed(ops)), ops[2::3] + ops[1::3] + ops[0::3]]
    results = []
    for d, order in zip(docs, orders):
        res = {}
        for op in order:
            r, ch = call(op, d)
            acc.count('transitions')
            acc.count('evaluations')
            res[op[0]] = r
            if ch:
                acc.violation(Viol('option-object', 'modified-by-the-call', dict(case0, op=op[0]), 'unchanged', 'changed'))
        results.append(res)
    for op in ops:
        a, b, c = (r[op[0]] for r in results)
        acc.nontriv(('long', op[0]))
        if not (a == b == c):
            acc.violation(Viol('history', 'result-depends-on-the-order-of-earlier-calls', dict(case0, op=op[0], orders='forward / backward / interleaved'), a[1][:200], (b[1][:100], c[1][:100])))
    again = {}
    for op in ops:
        again[op[0]], _ = call(op, docs[0])
        acc.count('transitions')
        if again[op[0]] != results[0][op[0]]:
            acc.violation(Viol('repeat', 'second-call-returns-something-else', dict(case0, op=op[0]), results[0][op[0]][1][:200], again[op[0]][1][:200]))
    acc.count('traces', 3)
    if SN.digest(SN.module_roots()) != mod0:
        acc.violation(Viol('shared-defaults', 'module-level-state-modified', dict(case0, op='(some operation on the long document)'), None, None))
    # excerpts: starts descending on one import, ascending on another; each (a, b) must give the same on both (returning or raising)
    starts = [s for s in (M - 5, M - 45, 240, 200, 160, 120, 100, 64, 33, 2) if 1 <= s <= M]
    d_desc, d_asc = kp.loads(text)[0], kp.loads(text)[0]

    def rng(d, a):
        try:
            return ('ok', kp.dumps(d, from_measure=a, to_measure=min(M, a + 3), spine_types=['**kern', '**text']))
        except Exception as e:  # noqa
            return ('exc', type(e).__name__)
    desc = {a: rng(d_desc, a) for a in starts}
    asc = {a: rng(d_asc, a) for a in sorted(starts)}
    acc.count('transitions', 2 * len(starts))
    for a in starts:
        if desc[a] != asc[a]:
            acc.violation(Viol('history', 'result-depends-on-the-order-of-earlier-calls', dict(case0, op=f'dumps:range-{a}-{min(M, a + 3)}', orders='starts descending / ascending'), asc[a][1][:200], desc[a][1][:200]))
    return acc


def _dispatch(job):
    return _long_job(job[1:]) if job[0] == 'long' else _doc_job(job)


def run(ctx):
    docs = doc_texts(ctx.tier, ctx.seed)
    ctx.rule = ('documents x (every op, every op twice, all ordered op pairs chained on ONE live object) with reflection snapshots of document, module-level state and option objects; '
                'non-trivial = ordered pair of operations')
    ctx.bounds = {'documents': len(docs), 'history': 'all histories of length 2 from s0; closure at depth 1 when every op is a self-loop, else BFS to depth 12 over state-changing ops; '
                                                        'in addition one chained history of length 2*ops^2 per document'}
    ctx.assumptions = ['snapshot walks __dict__/slots/containers from the document and from every kernpy module (no field names hard-coded); Node.NextID excluded (consumed by imports only)',
                       'graph output compared modulo node identifiers']
    longs = [('long', ctx.seed)] if ctx.quick else [('long', ctx.seed), ('long', ctx.seed + 1)]
    ctx.pmap(_dispatch, longs + [(n, t, ns, ctx.tier) for n, t, ns in docs], chunksize=1)
    ctx.extra['closure'] = {'docs_closed_at_depth_1': ctx.n.get('docs_closed_at_depth_1', 0), 'docs_with_state_change': ctx.n.get('docs_with_state_change', 0)}


def replay(case):
    if 'long' in case:
        return _long_job(tuple(case['long'])).viol
    for tier in ('quick', 'thorough'):
        for n, t, ns in doc_texts(tier, 0):
            if t == case['text']:
                d = _doc_job((n, t, ns, tier))
                return [v for v in d.viol if v['case'].get('op') == case.get('op')] or d.viol[:1]
    # seed-dependent documents: rebuild from the recorded text directly
    ns = len(case['text'].split('**')) - 1
    d = _doc_job((case['doc'], case['text'], max(1, ns), 'quick'))
    return [v for v in d.viol if v['case'].get('op') == case.get('op')] or d.viol[:1]
