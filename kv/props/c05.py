"""C05 - Category filtering removes exactly the unselected material.
Space: a family of documents containing every cell kind and every category that can label a token x ALL (include, exclude) pairs with
|include| <= 2 (or omitted) and |exclude| <= 2, reduced to the distinct selected sets they denote (kernpy's own computation of the selected
set is re-asserted for every representative pair, and for every pair in the thorough tier); complements of singles and pairs; all 2^16
unions of top-level categories on three documents.  Oracle: T_cat on the abstract grid (kv/model.py)."""
import itertools

import kernpy as kp

from .. import alphabet as A
from .. import catref
from .. import explore as X
from ..core import Acc, Viol, digest
from ..model import compare_export, Model

TC = kp.TokenCategory
NAMES = catref.NAMES
SETS = [()] + [(a,) for a in NAMES] + list(itertools.combinations(NAMES, 2))
SEQ = ['i', 'i', 'i', 'b', 'd', 'd', 'c', 'd', 'S0', 'd', 'd', 'J0', 'i', 'b', 'd', 'z', 'b']


def representatives():
    """distinct selected sets -> one (include, exclude) pair denoting it (simplest first)"""
    seen = {}
    for inc in [None] + SETS:
        ci = catref.ALL if inc is None else catref.closure(inc)
        for exc in SETS:
            S = ci - catref.closure(exc)
            if S not in seen:
                seen[S] = (inc, exc)
    return seen


def big_sets():
    out = {}
    for t in [(a,) for a in NAMES] + list(itertools.combinations(NAMES, 2)):
        S = catref.ALL - catref.closure(t)
        out.setdefault(S, (None, t))
        S2 = catref.closure([x for x in catref.TOP if x not in t])
        out.setdefault(S2, (tuple(x for x in catref.TOP if x not in t), ()))
    return out


def error_doc():
    """hand-made grid with every category incl. an ERROR cell and instruments"""
    m = Model(['**kern', '**text', '**dynam'])
    V, n = A.V, A.note
    rows = [
        [V('*clefG2', 'CLEF'), A.NULL_I, A.NULL_I],
        [V('*k[f#]', 'KEY_SIGNATURE'), A.NULL_I, A.NULL_I],
        [V('*M4/4', 'TIME_SIGNATURE'), V('*M4/4', 'TIME_SIGNATURE'), A.NULL_I],
        [V('*met(c)', 'METER_SYMBOL'), A.NULL_I, A.NULL_I],
        [V('*staff1', 'STRUCTURAL'), V('*staff1', 'STRUCTURAL'), A.NULL_I],
        [V('*MM120', 'OTHER_CONTEXTUAL'), A.NULL_I, A.NULL_I],
        [V('*I"Piano', 'INSTRUMENTS'), A.NULL_I, A.NULL_I],
        [V('*>A', 'OTHER'), A.NULL_I, A.NULL_I],
        [V('*ped', 'ENGRAVED_SYMBOLS'), A.NULL_I, A.NULL_I],
        [V('*xywh-1:1,2,3,4', 'BOUNDING_BOXES'), A.NULL_I, A.NULL_I],
        [V('=1', 'BARLINES', '=')] * 3,
        [n('4', 'c'), V('la', 'LYRICS'), V('f', 'DYNAMICS')],
        [n('8', 'd', '#', ['L', ';'], src='8d#L;'), A.NULL_D, A.NULL_D],
        [V('!x', 'FIELD_COMMENTS'), V('!', 'FIELD_COMMENTS'), V('!y', 'FIELD_COMMENTS')],
        [A.CH(n('4', 'c'), n('4', 'e', '-')), V('lu', 'LYRICS'), V('p', 'DYNAMICS')],
        [A.rest('4', [';']), A.NULL_D, A.NULL_D],
        [V('4zz', 'ERROR'), V('li', 'LYRICS'), A.NULL_D],
        [V('==', 'BARLINES')] * 3,
    ]
    for r in rows:
        m.add(r)
    return m.close()


def family(tier, seed):
    docs = [('error-doc', error_doc())]
    hdrs = A.HDR_QUICK if tier == 'quick' else A.hdr_thorough()[:30]
    seeds = range(seed, seed + (4 if tier == 'quick' else 10))
    for h in hdrs:
        for sd in seeds:
            m = X.seq_model(h, SEQ, sd, cap=6, with_key=False)
            if m is not None:
                docs.append((f'{"+".join(h)}#{sd}', m))
    return docs


def kw_of(inc, exc, shape=set):
    kw = {}
    if inc is not None:
        kw['include'] = shape(TC[x] for x in inc)
    if exc:
        kw['exclude'] = shape(TC[x] for x in exc)
    return kw


def _doc_job(job):
    di, tier, seed, part, nparts = job
    acc = Acc()
    name, m = family(tier, seed)[di]
    text = m.text()
    doc, errs = kp.loads(text)
    base = kp.dumps(doc, encoding=kp.Encoding.eKern)
    reps = list(representatives().items()) + list(big_sets().items())
    acc.state(digest(text))
    for k, (S, (inc, exc)) in enumerate(reps):
        if k % nparts != part:
            continue
        acc.count('evaluations')
        acc.count('transitions')
        case = {'doc': name, 'text': text, 'include': inc, 'exclude': exc, 'seed': seed, 'tier': tier}
        kw = kw_of(inc, exc, set if k % 3 else list)
        try:
            out = kp.dumps(doc, encoding=kp.Encoding.eKern, **kw)
        except Exception as e:  # noqa
            acc.violation(Viol('filter', 'raises', case, None, f'{type(e).__name__}: {str(e)[:100]}'))
            continue
        acc.count('traces')
        acc.outcome(digest(out))
        if 0 < len(S) < 37 and out != base:
            acc.nontriv((di, tuple(sorted(S))))
        probs = compare_export(m, out, 'ekern', None, S)
        for sym, detail in probs[:2]:
            acc.violation(Viol('filter', sym, case, 'unfiltered export with unselected material removed', detail))
        if S == catref.ALL and out != base:
            acc.violation(Viol('identity', 'include-all-exclude-nothing-is-not-the-identity', case, base, out))
    # the same include / exclude OBJECT used for several calls (as a program that keeps its selection in a variable does)
    if part == 1:
        for inc, exc in ((('CORE', 'BARLINES', 'STRUCTURAL'), ('BARLINES',)), (('NOTE_REST', 'SIGNATURES', 'HEADER'), ('NOTE_REST',)),
                         (('CORE', 'SIGNATURES', 'COMMENTS'), ('CLEF', 'CORE')), ('BEKERN', ('CORE',))):
            names = [c.name for c in kp.BEKERN_CATEGORIES] if inc == 'BEKERN' else list(inc)
            for shape in (set, list):
                s_inc = shape(TC[x] for x in names)
                s_exc = shape(TC[x] for x in exc)
                try:
                    kp.dumps(doc, encoding=kp.Encoding.eKern, include=s_inc, exclude=s_exc)
                    o2 = kp.dumps(doc, encoding=kp.Encoding.eKern, include=s_inc)            # same include object, no exclude any more
                    o3 = kp.dumps(doc, encoding=kp.Encoding.eKern, exclude=s_exc)            # same exclude object alone
                    acc.count('transitions', 3)
                except Exception as e:  # noqa
                    acc.violation(Viol('filter-reused-object', 'raises', {'doc': name, 'text': text, 'include': names, 'exclude': exc, 'seed': seed, 'tier': tier}, None, repr(e)[:100]))
                    continue
                case = {'doc': name, 'text': text, 'include': names, 'exclude': list(exc), 'seed': seed, 'tier': tier, 'reused': shape.__name__}
                for out, S in ((o2, catref.selected(names, None)), (o3, catref.selected(None, exc))):
                    for sym, detail in compare_export(m, out, 'ekern', None, S)[:1]:
                        acc.violation(Viol('filter-reused-object', 'result-depends-on-an-earlier-call-with-the-same-object', case, None, detail))
    # the options-OBJECT interface: one ExportOptions instance whose token_categories are reassigned between exports
    if part == 2:
        seqs = [(('CORE', 'STRUCTURAL'), ('BARLINES', 'STRUCTURAL', 'SIGNATURES')), ((None), ('NOTE_REST', 'HEADER')), (('PITCH', 'HEADER', 'SPINE_OPERATION'), None)]
        for first, second in seqs:
            try:
                opts = kp.ExportOptions(kern_type=kp.Encoding.eKern, token_categories=TC.valid(include=None if first is None else {TC[x] for x in first}))
                kp.Exporter().export_string(doc, opts)
                opts.token_categories = TC.valid(include=None if second is None else {TC[x] for x in second})
                out = kp.Exporter().export_string(doc, opts)
                acc.count('transitions', 2)
            except Exception as e:  # noqa
                acc.violation(Viol('filter-options-object', 'raises', {'doc': name, 'text': text, 'first': first, 'second': second, 'seed': seed, 'tier': tier}, None, repr(e)[:100]))
                continue
            S = catref.selected(second, None)
            for sym, detail in compare_export(m, out, 'ekern', None, S)[:1]:
                acc.violation(Viol('filter-options-object', 'export-follows-the-categories-of-an-earlier-export', {'doc': name, 'text': text, 'first': first, 'second': second, 'seed': seed, 'tier': tier, 'options_object': True}, None, detail))
    # identity spellings
    if part == 0:
        for kw in ({'include': set(TC)}, {'include': list(TC)}, {'exclude': []}, {'exclude': set()}, {'include': set(TC), 'exclude': set()}, {'include': None, 'exclude': None}):
            acc.count('transitions')
            if kp.dumps(doc, encoding=kp.Encoding.eKern, **kw) != base:
                acc.violation(Viol('identity', 'include-all-exclude-nothing-is-not-the-identity', {'doc': name, 'text': text, 'kw': repr(kw)}, base, None))
        # the plain encoding obeys the same filter (relation to the extended one is C04's): spot rows via compare_export on kern
        for S, (inc, exc) in list(representatives().items())[::97]:
            out = kp.dumps(doc, **kw_of(inc, exc))
            acc.count('transitions')
            for sym, detail in compare_export(m, out, 'kern', None, S)[:1]:
                acc.violation(Viol('filter-plain', sym, {'doc': name, 'text': text, 'include': inc, 'exclude': exc}, None, detail))
    if di == 1 and part == 0:
        acc.sample({'doc': name, 'text': text, 'option_sets': 'every distinct selected set of the (include<=2, exclude<=2) grid + complements'})
    return acc


def _selset_job(job):
    """kernpy's own selected-set computation for (include, exclude) pairs through the public option parser"""
    lo, hi, full = job
    acc = Acc()
    try:
        from kernpy.core.generic import Generic
        parse = Generic.parse_options_to_ExportOptions
    except Exception:
        return acc
    incs = [None] + SETS
    for ii in range(lo, hi):
        inc = incs[ii]
        ci = catref.ALL if inc is None else catref.closure(inc)
        for ei, exc in enumerate(SETS):
            if not full and (ii + ei) % 16:
                continue
            exp = ci - catref.closure(exc)
            acc.count('transitions')
            acc.count('selected_set_evaluations')
            try:
                got = frozenset(c.name for c in parse(**kw_of(inc, exc)).token_categories)
            except Exception:
                # the option parser is an internal helper: if its interface changed this extra assertion is skipped (C11 and the exports above decide)
                acc.count('selected_set_assertion_skipped')
                return acc
            if got != exp:
                acc.violation(Viol('selected-set', 'differs-from-include-closure-minus-exclude-closure', {'include': inc, 'exclude': exc}, sorted(exp), got if isinstance(got, str) else sorted(got)))
    return acc


def _union_job(job):
    di, lo, hi, tier, seed = job
    acc = Acc()
    name, m = family(tier, seed)[di]
    doc, _ = kp.loads(m.text())
    top = catref.TOP
    for mask in range(lo, hi):
        inc = tuple(top[i] for i in range(len(top)) if mask >> i & 1)
        S = catref.closure(inc)
        acc.count('evaluations')
        acc.count('transitions')
        out = kp.dumps(doc, encoding=kp.Encoding.eKern, include=set(TC[x] for x in inc))
        acc.count('traces')
        if len(inc) > 2:
            acc.nontriv((di, mask))
        for sym, detail in compare_export(m, out, 'ekern', None, S)[:1]:
            acc.violation(Viol('filter', sym, {'doc': name, 'text': m.text(), 'include': inc, 'exclude': ()}, None, detail))
    return acc


def _big_job(job):
    """documents far beyond the bounds (giant: ~2 100 lines; aligned: rare rows on power-of-two lines) x every single include, every single exclude and a few pairs"""
    from .. import docspace as D
    which, seed, part = job
    acc = Acc()
    m = D.giant_model(seed, rows=1650) if which == 'giant' else (D.distinct_single_model(seed) if which == 'distinct' else D.aligned_model(seed, int(which[7:])))
    doc, _ = kp.loads(m.text())
    sels = [((c,), None) for c in sorted(catref.ALL)] + [(None, (c,)) for c in sorted(catref.ALL)] + \
           [(('DECORATION', 'BARLINES'), None), (('SIGNATURES',), ('CLEF',)), (('CORE', 'SIGNATURES'), ('NOTE',)), (None, ('CORE', 'BARLINES'))]
    for k, (inc, exc) in enumerate(sels):
        if k % 4 != part:
            continue
        S = catref.selected(inc, exc)
        acc.count('evaluations')
        acc.count('transitions')
        case = {'big': [which, seed, part], 'doc': which, 'include': inc, 'exclude': exc}
        try:
            out = kp.dumps(doc, encoding=kp.Encoding.eKern, **kw_of(inc, exc))
        except Exception as e:  # noqa
            acc.violation(Viol('filter-big-document', 'raises', case, 'text', f'{type(e).__name__}: {str(e)[:100]}'))
            continue
        acc.count('traces')
        acc.nontriv((which, k))
        for sym, detail in compare_export(m, out, 'ekern', None, S)[:1]:
            acc.violation(Viol('filter-big-document', sym, case, 'unfiltered export minus the unselected material', detail))
    return acc


def run(ctx):
    quick = ctx.quick
    fam = family(ctx.tier, ctx.seed)
    reps = representatives()
    ctx.rule = ('documents x every distinct selected set denoted by an (include<=2 | None, exclude<=2) pair, complements, unions of top-level categories; '
                'non-trivial = selected set strictly between empty and everything that changes the export')
    ctx.bounds = {'documents': len(fam), 'distinct_selected_sets': len(reps), 'complement_sets': len(big_sets()), 'pairs_denoting_them': 705 * 704,
                  'unions_of_top_level': '2^16 on 3 documents' if not quick else '2^16 on 1 document'}
    ctx.assumptions = ['selected set = include closure minus exclude closure over the README tree (kv/catref.py); C11 decides that kernpy computes it for every pair',
                       'a chord left with only null notes makes its row optional (DESIGN §2.1)', 'key designations (*C:) not generated: category ambiguous']
    nparts = 4
    ctx.pmap(_big_job, [(w, ctx.seed, p_) for w in ('giant', 'aligned128', 'aligned1100', 'distinct') for p_ in range(4)], chunksize=1)
    ctx.pmap(_doc_job, [(di, ctx.tier, ctx.seed, p, nparts) for di in range(len(fam)) for p in range(nparts)], chunksize=1)
    ctx.pmap(_selset_job, [(lo, min(lo + 8, 705), not quick) for lo in range(0, 705, 8)], chunksize=1)
    ntop = len(catref.TOP)
    udocs = [0] if quick else [0, 1, 2]
    ctx.pmap(_union_job, [(di, lo, min(lo + 1024, 1 << ntop), ctx.tier, ctx.seed) for di in udocs for lo in range(0, 1 << ntop, 1024)], chunksize=1)


def replay(case):
    acc = Acc()
    if 'big' in case:
        return _big_job(tuple(case['big'])).viol
    if case.get('options_object'):
        fam = family(case.get('tier', 'quick'), case.get('seed', 0))
        di = [m.text() for _, m in fam].index(case['text'])
        d = _doc_job((di, case.get('tier', 'quick'), case.get('seed', 0), 2, 10 ** 9))
        return [v for v in d.viol if v['cls'] == 'filter-options-object']
    inc, exc = case.get('include'), case.get('exclude') or ()
    if 'text' not in case:
        d = _selset_job((0, 705, True))
        return [v for v in d.viol if v['case']['include'] == (list(inc) if inc else inc) or True][:3]
    # find the document in the family by its text (any tier / recorded seed are tried)
    for tier in (case.get('tier', 'quick'),):
        for name, m in family(tier, case.get('seed', 0)):
            if m.text() == case['text'] and 'reused' in case:
                doc, _ = kp.loads(m.text())
                shape = set if case['reused'] == 'set' else list
                s_inc = shape(TC[x] for x in inc)
                s_exc = shape(TC[x] for x in exc)
                kp.dumps(doc, encoding=kp.Encoding.eKern, include=s_inc, exclude=s_exc)
                o2 = kp.dumps(doc, encoding=kp.Encoding.eKern, include=s_inc)
                o3 = kp.dumps(doc, encoding=kp.Encoding.eKern, exclude=s_exc)
                for out, S in ((o2, catref.selected(inc, None)), (o3, catref.selected(None, exc))):
                    for sym, detail in compare_export(m, out, 'ekern', None, S)[:1]:
                        acc.violation(Viol('filter-reused-object', 'result-depends-on-an-earlier-call-with-the-same-object', case, None, detail))
                return acc.viol
            if m.text() == case['text']:
                doc, _ = kp.loads(m.text())
                S = catref.selected(inc, exc)
                out = kp.dumps(doc, encoding=kp.Encoding.eKern, **kw_of(inc, exc))
                for sym, detail in compare_export(m, out, 'ekern', None, S)[:2]:
                    acc.violation(Viol('filter', sym, case, None, detail))
                return acc.viol
    return acc.viol
