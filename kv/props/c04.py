"""C04 - The six encodings are consistent views of one document.
Space: document space of C03 (paths + deviations; a clef row first so that the agnostic encodings are defined) x 6 encodings x 8 category
selections that keep durations or pitches.  Oracle: relations between kernpy's own six outputs; the model only says which cells are
notes and how many notes a chord has."""
import kernpy as kp

from .. import alphabet as A
from .. import catref
from .. import docspace as D
from .. import explore as X
from ..core import Acc, Viol, digest
from ..model import ref_rows, PREFIX

TC = kp.TokenCategory
E = kp.Encoding
ENC = {'kern': E.normalizedKern, 'ekern': E.eKern, 'bkern': E.bKern, 'bekern': E.bEkern, 'akern': E.agnosticKern, 'aekern': E.agnosticExtendedKern}
SELECTIONS = [
    ('all', {}),
    ('exclude-decoration', {'exclude': ['DECORATION']}),
    ('include-note-parts', {'include': ['DURATION', 'PITCH', 'ALTERATION', 'REST', 'CHORD', 'STRUCTURAL', 'BARLINES']}),
    ('bekern-categories', {'include': 'BEKERN'}),
    ('exclude-clef', {'exclude': ['CLEF']}),
    ('include-core-structural', {'include': ['CORE', 'STRUCTURAL']}),
    ('exclude-pitch', {'exclude': ['PITCH']}),
    ('exclude-duration', {'exclude': ['DURATION']}),
    ('exclude-duration-rest', {'exclude': ['DURATION', 'REST']}),
    ('include-note-chord-structure', {'include': ['NOTE', 'CHORD', 'STRUCTURAL', 'BARLINES']}),
]


def sel_kw(sel):
    kw = {}
    for k, v in sel.items():
        kw[k] = set(kp.BEKERN_CATEGORIES) if v == 'BEKERN' else {TC[x] for x in v}
    return kw


def sel_set(sel):
    inc = sel.get('include')
    if inc == 'BEKERN':
        inc = [c.name for c in kp.BEKERN_CATEGORIES]
    return catref.selected(inc, sel.get('exclude'))


def strip(s):
    return s.replace('@', '').replace('·', '')


def grid(text):
    lines = text.split('\n')
    if lines and lines[-1] == '':
        lines = lines[:-1]
    return [l.split('\t') for l in lines]


def debasic_note(n):
    m = n.split('·')[0]
    return m[:-1] if m.endswith('@') else m


def check_doc(acc, job):
    m = D.materialise(job, with_key=False)
    if m is None:
        return
    text = m.text()
    acc.count('evaluations')
    acc.state(digest(text))
    try:
        doc, errs = kp.loads(text)
    except Exception as e:  # noqa
        acc.violation(Viol('well-formed', 'import-raises', {'text': text}, None, repr(e)[:100]))
        return
    if errs:
        acc.violation(Viol('well-formed', 'import-errors', {'text': text}, None, [e.encoding for e in errs][:3]))
        return
    has_chord_sig = any(c.spec['k'] == 'c' and any(n['dec'] for n in c.spec['notes']) for c in m.cells())
    for name, sel in SELECTIONS:
        case = {'text': text, 'headers': job[0], 'seq': job[1], 'seed': job[2], 'selection': name}
        S = sel_set(sel)
        rows = ref_rows(m, None, S)
        out = {}
        for enc, ev in ENC.items():
            acc.count('transitions')
            try:
                out[enc] = kp.dumps(doc, encoding=ev, **sel_kw(sel))
            except Exception as e:  # noqa
                out[enc] = e
        acc.count('traces')
        if has_chord_sig:
            acc.nontriv((digest(text), name))
        # agnostic encodings may refuse a document in which a note precedes every clef (C10); the other four must not raise
        for enc in ('kern', 'ekern', 'bkern', 'bekern'):
            if isinstance(out[enc], Exception):
                acc.violation(Viol('encoding-' + enc, 'raises', case, 'text', f'{type(out[enc]).__name__}: {str(out[enc])[:80]}'))
        if any(isinstance(out[e], Exception) for e in ('kern', 'ekern', 'bkern', 'bekern')):
            continue
        agn_ok = not isinstance(out['akern'], Exception) and not isinstance(out['aekern'], Exception)
        if isinstance(out['akern'], Exception) != isinstance(out['aekern'], Exception):
            acc.violation(Viol('agnostic-pair', 'one-raises-the-other-not', case, None, [repr(out['akern'])[:80], repr(out['aekern'])[:80]]))
        g = {e: grid(out[e]) for e in ENC if not isinstance(out[e], Exception)}
        acc.outcome(tuple(digest(out[e]) if not isinstance(out[e], Exception) else 'exc' for e in ENC))
        # 1. plain == extended with the separators removed (header prefix mapped)
        for plain, ext in (('kern', 'ekern'), ('bkern', 'bekern'), ('akern', 'aekern')):
            if plain not in g or ext not in g:
                continue
            exp = [[strip(c) for c in r] for r in g[ext]]
            if exp and exp[0] and all(c.startswith('**') for c in g[ext][0]):
                exp[0] = ['**' + PREFIX[plain] + c[2 + len(PREFIX[ext]):] if c.startswith('**' + PREFIX[ext]) else c for c in g[ext][0]]
            if exp != g[plain]:
                bad = next(((a, b) for ra, rb in zip(exp, g[plain]) for a, b in zip(ra, rb) if a != b), (len(exp), len(g[plain])))
                acc.violation(Viol(f'{plain}-vs-{ext}', 'plain-is-not-extended-minus-separators', case, bad[0], bad[1]))
        # alignment of the extended export with the model rows (to know which cells are notes)
        ge = g['ekern']
        if len(ge) != len(rows) or any(len(a) != len(r['cells']) for a, r in zip(ge, rows)):
            acc.violation(Viol('ekern', 'grid-differs-from-model', case, len(rows), len(ge)))
            continue
        # 2. headers
        for enc in g:
            if g[enc] and rows and rows[0]['row'] == m.header_row and 'HEADER' in S:
                exp = ['**' + PREFIX[enc] + c.src[2:] for c in rows[0]['cells']]
                if g[enc][0] != exp:
                    acc.violation(Viol('encoding-' + enc, 'header-is-not-prefix-plus-type', case, exp, g[enc][0]))
        # 3. basic == full with the signifiers removed note by note; non-note cells identical in all six
        exp_rows = []
        for ri, (re_, r) in enumerate(zip(ge, rows)):
            erow = []
            for ce, c in zip(re_, r['cells']):
                k = c.spec['k']
                if c.spec.get('cat') == 'HEADER':
                    erow.append('**be' + ce[3:] if ce.startswith('**e') else ce)
                elif k == 'v' or ce in A.NULLS:
                    erow.append(ce)
                else:
                    notes_e = ce.split(' ') if k == 'c' else [ce]
                    if k == 'c' and len(notes_e) != len(c.spec['notes']):
                        acc.violation(Viol('ekern', 'chord-note-count', case, len(c.spec['notes']), ce))
                    erow.append(' '.join(debasic_note(n) for n in notes_e))
            if all(x in A.NULLS for x in erow):
                continue        # a row whose notes keep nothing in the basic encoding is a null row there
            exp_rows.append((ri, erow))
        gb = g['bekern']
        if len(gb) != len(exp_rows):
            acc.violation(Viol('bekern-vs-ekern', 'row-count-differs', case, len(exp_rows), len(gb)))
            continue
        for (ri, erow), rb in zip(exp_rows, gb):
            if len(rb) != len(erow):
                acc.violation(Viol('bekern-vs-ekern', 'cell-count-differs', case, erow, rb))
                break
            for x, y, c in zip(erow, rb, rows[ri]['cells']):
                if x != y and not (x in A.NULLS and y in A.NULLS):
                    sym = 'chord-note-lost' if c.spec['k'] == 'c' and len(y.split(' ')) != len(x.split(' ')) else 'basic-is-not-full-minus-signifiers'
                    acc.violation(Viol('bekern-vs-ekern', sym, case, x, y))
                # independent of how the full encoding marks signifiers: a basic note may only consist of main parts of the abstract note
                if c.spec['k'] in ('n', 'c') and y not in A.NULLS:
                    notes_s = [c.spec] if c.spec['k'] == 'n' else c.spec['notes']
                    for yn, sn in zip(y.split(' '), notes_s):
                        allowed = {t for t, _ in sn['main']}
                        extra = [p_ for p_ in yn.replace('·', '@').split('@') if p_ and p_ not in allowed and p_ not in A.NULLS]
                        if extra and set(extra) <= set(sn['dec']):
                            acc.violation(Viol('bekern-vs-ekern', 'basic-encoding-keeps-a-signifier', case, sorted(allowed), yn))
        # non-note cells identical in all six encodings (headers aside)
        for ri, (re_, r) in enumerate(zip(ge, rows)):
            for ci, (ce, c) in enumerate(zip(re_, r['cells'])):
                if c.spec['k'] != 'v' or c.spec.get('cat') == 'HEADER':
                    continue
                for e2 in ('aekern',):
                    if e2 in g and len(g[e2]) == len(ge) and len(g[e2][ri]) == len(re_) and g[e2][ri][ci] != ce:
                        acc.violation(Viol('non-note-cell', 'differs-between-encodings', case, ce, g[e2][ri][ci]))
        for (ri, erow), rb in zip(exp_rows, gb):
            for x, y, c in zip(erow, rb, rows[ri]['cells']):
                if c.spec['k'] == 'v' and c.spec.get('cat') != 'HEADER' and x != y and not (x in A.NULLS and y in A.NULLS):
                    acc.violation(Viol('non-note-cell', 'differs-between-encodings', case, x, y))


def check_ranges(acc, job):
    """the same relations for measure-range exports (the option set of the property includes ranges)"""
    m = D.materialise(job, with_key=False)
    if m is None:
        return
    text = m.text()
    try:
        doc, errs = kp.loads(text)
        M = doc.measures_count()
    except Exception:
        return
    types = set(m.headers)
    for a, b in sorted({(1, 1), (M, M), (1, M), (2 if M >= 2 else 1, M)}):
        out = {}
        for enc, ev in ENC.items():
            acc.count('transitions')
            try:
                out[enc] = kp.dumps(doc, encoding=ev, from_measure=a, to_measure=b)
            except Exception as e:  # noqa
                out[enc] = e
        case = {'text': text, 'headers': job[0], 'seq': job[1], 'seed': job[2], 'selection': 'all', 'from_measure': a, 'to_measure': b}
        acc.count('traces')
        if isinstance(out['ekern'], Exception):
            continue      # C07 / C08 decide whether the range itself is exportable
        for plain, ext in (('kern', 'ekern'), ('bkern', 'bekern'), ('akern', 'aekern')):
            if isinstance(out[plain], Exception) or isinstance(out[ext], Exception):
                if plain != 'akern' and isinstance(out[plain], Exception) != isinstance(out[ext], Exception):
                    acc.violation(Viol(f'{plain}-vs-{ext}', 'one-raises-the-other-not', case, None, [repr(out[plain])[:80], repr(out[ext])[:80]]))
                continue
            ge, gp = grid(out[ext]), grid(out[plain])
            exp = [[strip(c) for c in r] for r in ge]
            if exp and exp[0] and all(c.startswith('**') for c in ge[0]):
                exp[0] = ['**' + PREFIX[plain] + c[2 + len(PREFIX[ext]):] if c.startswith('**' + PREFIX[ext]) else c for c in ge[0]]
            if exp != gp:
                bad = next(((x, y) for ra, rb in zip(exp, gp) for x, y in zip(ra, rb) if x != y), (len(exp), len(gp)))
                acc.violation(Viol(f'{plain}-vs-{ext}', 'plain-is-not-extended-minus-separators', case, bad[0], bad[1]))
        for enc in ENC:
            if isinstance(out[enc], Exception) or not out[enc]:
                continue
            first = out[enc].split('\n')[0].split('\t')
            if all(c.startswith('**') for c in first):
                bad = [c for c in first if not (c.startswith('**' + PREFIX[enc]) and '**' + c[2 + len(PREFIX[enc]):] in types)]
                if bad:
                    acc.violation(Viol('encoding-' + enc, 'header-is-not-prefix-plus-type', case, ['**' + PREFIX[enc] + t[2:] for t in sorted(types)], first))


def _job(jobs):
    acc = Acc()
    for k, j in enumerate(jobs):
        check_doc(acc, j)
        if 'b' in j[1]:
            check_ranges(acc, j)
    if jobs:
        m = D.materialise(jobs[len(jobs) // 2])
        if m is not None:
            acc.sample({'text': m.text(), 'selections': [n for n, _ in SELECTIONS], 'encodings': list(ENC)}, cap=1)
    return acc


def run(ctx):
    quick = ctx.quick
    hdrs = [h for h in (A.HDR_QUICK if quick else A.hdr_thorough()[:20])]
    syms = ['d', 'i', 'c', 'b', 'z', 'S0', 'J0', 'k']
    ctx.rule = ('document space of C03 with a leading clef row x 8 category selections x 6 encodings; non-trivial = document with a chord whose notes carry signifiers')
    ctx.bounds = {'header_configurations': len(hdrs), 'path_depth': '3 (4 on the reduced alphabet)' if quick else '4 (5)', 'deviations_k': 1 if quick else 2, 'selections': len(SELECTIONS)}
    ctx.assumptions = ['relational oracle between kernpy\'s own outputs; the model contributes only cell kinds and chord sizes',
                       'agnostic encodings may raise when a note precedes every clef (then only the other four are related)']
    jobs = []
    for h, seq, sd in D.path_docs(hdrs, 3 if quick else 4, (ctx.seed,), syms):
        jobs.append((h, ['k'] + seq, sd))
    for h, seq, sd in D.path_docs(hdrs[:4], 4 if quick else 5, (ctx.seed + 1,), ['d', 'b', 'S0', 'J0', 'i']):
        jobs.append((h, ['k'] + seq, sd))
    for j in D.deviation_docs([['**kern', '**text']] if quick else hdrs[:5], 1 if quick else 2, (ctx.seed,), backbone=['k', 'i', 'b', 'd', 'd', 'b', 'd', 'b']):
        jobs.append(j)
    ctx.pmap(_job, [[j] for j in D.long_docs(ctx.seed, reps=(6,)) + D.huge_docs(ctx.seed + 3, headers=(('**kern', '**text'),)) + D.giant_jobs(ctx.seed) + D.aligned_jobs(ctx.seed) + [(['**kern'], ['DISTINCT'], ctx.seed)]] + list(X.chunks(jobs, 60)), chunksize=1)


def replay(case):
    acc = Acc()
    check_doc(acc, (case['headers'], case['seq'], case['seed']))
    if 'from_measure' in case:
        check_ranges(acc, (case['headers'], case['seq'], case['seed']))
    return acc.viol
