"""C10 - Agnostic encoding depends only on staff position and accidental.
Pitch level (exhaustive): 7 clefs x 5 octave marks x 7 letters x accidentals x octaves 0..8 through ClefFactory / pitch_to_gkern_string and through
one-note documents (all six accidental spellings incl. natural and display suffix).  Document level: every enabled row sequence up to a depth
with clef changes in single columns, splits, joins, chords, rests; the clef in force per cell comes from the model."""
import kernpy as kp

from .. import alphabet as A
from .. import explore as X
from .. import pitchref as R
from ..core import Acc, Viol, digest
from ..model import compare_export

CLEF_BASE = ['G2', 'F3', 'F4', 'C1', 'C2', 'C3', 'C4']
MARKS = ['', 'v', 'vv', '^', '^^']
ACC_API = [0, 1, 2, -1, -2]
ACC_TXT = ['', 'n', '#', '##', '-', '--', '#X', '-y']
E = kp.Encoding


def clef_text(base, mark):
    return f'*clef{base[0]}{mark}{base[1]}'


def bottom_of(clef):
    p = kp.ClefFactory.create_clef(clef).bottom_line()
    return p.name[0], p.octave


SIGN = {'G': ('G', 4), 'F': ('F', 3), 'C': ('C', 4)}


def musical_bottom(base):
    """bottom line of a five-line staff whose line base[1] carries the clef's reference pitch (G4, F3 or middle C)"""
    l, o = SIGN[base[0]]
    return R.from_steps(R.staff_steps(l, o) - 2 * (int(base[1]) - 1))


def steps_of_spelling(s):
    l, a, o = R.parse(s)
    return R.staff_steps(l, o), a


def g(letter, alt, octave, clef_obj):
    ap = kp.AgnosticPitch(letter + ('+' * alt if alt > 0 else '-' * -alt), octave)
    return kp.pitch_to_gkern_string(ap, clef_obj)


def check_pitch_level(acc):
    for base in CLEF_BASE:
        outs_by_mark = {}
        for mark in MARKS:
            ct = clef_text(base, mark)
            case0 = {'clef': ct}
            try:
                clef = kp.ClefFactory.create_clef(ct)
                bl = clef.bottom_line()
            except Exception as e:  # noqa
                acc.violation(Viol('clef', 'cannot-create', case0, None, repr(e)[:100]))
                continue
            acc.count('transitions')
            # the bottom line the clef object reports must be the one of the staff (G4 / F3 / middle C on the clef's line)
            mb = musical_bottom(base)
            if (bl.name[0], bl.octave) != mb:
                acc.violation(Viol('clef-' + base, f'bottom-line-is-{bl.name}{bl.octave}-not-{mb[0]}{mb[1]}', case0, f'{mb[0]}{mb[1]}', f'{bl.name}{bl.octave}'))
            # anchor: the clef's bottom-line pitch maps to 'e'
            try:
                if kp.pitch_to_gkern_string(bl, clef) != 'e':
                    acc.violation(Viol('anchor', 'bottom-line-does-not-map-to-e', case0, 'e', kp.pitch_to_gkern_string(bl, clef)))
            except Exception as e:  # noqa
                acc.violation(Viol('anchor', 'raises', case0, 'e', repr(e)[:100]))
            outs = {}
            for alt in ACC_API:
                prev = None
                for octave in range(0, 9):
                    for letter in R.LETTERS:
                        case = {'clef': ct, 'pitch': R.spell(letter, alt, octave)}
                        acc.count('evaluations')
                        acc.count('transitions')
                        acc.state((base, letter, alt, octave))
                        if base != 'G2':
                            acc.nontriv((base, mark, letter, alt, octave))
                        try:
                            o = g(letter, alt, octave, clef)
                            st, a = steps_of_spelling(o)
                        except Exception as e:  # noqa
                            acc.violation(Viol('position', 'raises-or-unparsable', case, None, repr(e)[:100]))
                            prev = None
                            continue
                        outs[(letter, alt, octave)] = o
                        acc.outcome(o)
                        if a != alt:
                            acc.violation(Viol('accidental', 'not-carried-over-unchanged', case, alt, o))
                        if base == 'G2' and o != R.spell(letter, alt, octave):
                            acc.violation(Viol('g2', 'not-the-identity', case, R.spell(letter, alt, octave), o))
                        # moving the pitch by one diatonic step moves the agnostic pitch by one step (chain => every k)
                        if prev is not None and st != prev + 1:
                            acc.violation(Viol('translation', 'one-step-up-is-not-one-step-up', case, prev + 1, st))
                        prev = st
                        # anchored expectation
                        exp = R.agnostic(letter, octave, bl.name[0], bl.octave) + ('#' * alt if alt > 0 else '-' * -alt)
                        if o != exp:
                            acc.violation(Viol('position', 'not-the-g2-pitch-on-the-same-line-or-space', case, exp, o))
            outs_by_mark[mark] = outs
        ref = outs_by_mark.get('')
        for mark, outs in outs_by_mark.items():
            if ref is not None and outs != ref:
                acc.violation(Viol('octave-mark', 'changes-the-position', {'clef': clef_text(base, mark)}, None, None))
    acc.sample({'clef': '*clefF4', 'pitch': 'GG', 'agnostic': 'e'})


def _one_note_job(job):
    """string route: one-note documents for every clef x letter x accidental spelling x octave"""
    base, mark = job
    acc = Acc()
    ct = clef_text(base, mark)
    bl = bottom_of(ct)
    for acc_txt in ACC_TXT:
        rows = []
        for octave in range(0, 9):
            for letter in R.LETTERS:
                rows.append((letter, octave, '4' + R.spell(letter, 0, octave) + acc_txt))
        text = '**kern\n' + ct + '\n' + '\n'.join(r[2] for r in rows) + '\n*-\n'
        case = {'text': text, 'clef': ct, 'accidental': acc_txt}
        acc.count('evaluations', len(rows))
        acc.count('transitions', 3)
        try:
            doc, errs = kp.loads(text)
            ak = kp.dumps(doc, encoding=E.agnosticKern).split('\n')
            aek = kp.dumps(doc, encoding=E.agnosticExtendedKern).split('\n')
            k = kp.dumps(doc).split('\n')
        except Exception as e:  # noqa
            acc.violation(Viol('document-one-note', 'raises', case, None, f'{type(e).__name__}: {str(e)[:100]}'))
            continue
        if errs:
            acc.violation(Viol('document-one-note', 'import-errors', case, None, [e.encoding for e in errs][:3]))
            continue
        acc.count('traces')
        if ak[0] != '**akern' or aek[0] != '**aekern' or ak[1] != ct or len(ak) != len(k):
            acc.violation(Viol('document-one-note', 'non-note-cells-differ', case, None, ak[:2]))
            continue
        for (letter, octave, src), a, ae, kk in zip(rows, ak[2:], aek[2:], k[2:]):
            exp = '4' + R.agnostic(letter, octave, bl[0], bl[1]) + acc_txt
            acc.state((base, letter, octave, acc_txt))
            if acc_txt in ('n', '#X', '-y'):
                acc.nontriv((base, mark, letter, octave, acc_txt))
            if a != exp:
                acc.violation(Viol('document-one-note', 'wrong-agnostic-pitch' if acc_txt in ('', '#', '##', '-', '--') else 'wrong-agnostic-pitch-with-natural-or-display-suffix',
                                   dict(case, note=src), exp, a))
            if ae.replace('@', '').replace('·', '') != a:
                acc.violation(Viol('document-one-note', 'extended-differs-from-plain', dict(case, note=src), a, ae))
    return acc


def _clef_sweep_job(job):
    """history in ONE process: one-note documents under every clef x octave mark, one after the other (in the given order) - a conversion remembered
    from an earlier clef (same line, same mark, other shape; same shape, other mark; ...) must not leak into a later one"""
    order, acc_txt = job
    acc = Acc()
    combos = [(b, mk) for b in CLEF_BASE for mk in MARKS]
    if order == 'reversed':
        combos.reverse()
    elif order == 'by-mark':
        combos.sort(key=lambda c: (c[1], c[0][1], c[0][0]))
    for base, mark in combos:
        ct = clef_text(base, mark)
        bl = bottom_of(ct)
        rows = [(letter, octave, '4' + R.spell(letter, 0, octave) + acc_txt) for octave in range(0, 9) for letter in R.LETTERS]
        # two spines under two different clefs of the sweep in one document as well (the neighbour in the list)
        text = '**kern\n' + ct + '\n' + '\n'.join(r[2] for r in rows) + '\n*-\n'
        case = {'text': text, 'clef': ct, 'accidental': acc_txt, 'sweep': order}
        acc.count('evaluations', len(rows))
        acc.count('transitions', 2)
        try:
            doc, errs = kp.loads(text)
            ak = kp.dumps(doc, encoding=E.agnosticKern).split('\n')
            aek = kp.dumps(doc, encoding=E.agnosticExtendedKern).split('\n')
        except Exception as e:  # noqa
            acc.violation(Viol('clef-sequence-in-one-process', 'raises', case, None, f'{type(e).__name__}: {str(e)[:100]}'))
            continue
        acc.count('traces')
        for (letter, octave, src), a, ae in zip(rows, ak[2:], aek[2:]):
            exp = '4' + R.agnostic(letter, octave, bl[0], bl[1]) + acc_txt
            acc.state(('sweep', base, mark, letter, octave))
            if base != 'G2':
                acc.nontriv(('sweep', order, base, mark, letter, octave, acc_txt))
            if a != exp or ae.replace('@', '').replace('·', '') != exp:
                acc.violation(Viol('clef-sequence-in-one-process', 'wrong-agnostic-pitch-after-other-clefs-were-exported', dict(case, note=src), exp, [a, ae]))
                break
    return acc


# ---------------------------------------------------------------------------------------------------
def menu(m, n, seed, cap):
    w = m.width()
    types = m.types()
    rows = [('d', X.content_row(m, 'd', n, seed)), ('b', X.content_row(m, 'b', n, seed))]
    for j in range(w):
        if types[j] in A.KERN_LIKE:
            rows.append((f'clef{j}', [A.V(A.CLEFS[(n + j + seed) % len(A.CLEFS)], 'CLEF') if i == j else A.NULL_I for i in range(w)]))
    rows.append(('k', X.content_row(m, 'k', n + 3, seed)))
    rows += X.split_rows(m, cap) + X.join_rows(m) + X.mixed_rows(m, cap)
    return rows


def check_doc(acc, headers, hist):
    m = X.build(headers, hist, close=True)
    text = m.text()
    case = {'text': text, 'headers': headers, 'hist': hist}
    acc.count('evaluations')
    acc.state(digest(text))
    ctx = m.context()
    notes_without_clef = any(c.spec['k'] in ('n', 'c') and ctx[id(c)]['clef'] is None and _has_pitch(c.spec) for c in m.cells())
    clef_cells = [c for c in m.cells() if c.spec.get('cat') == 'CLEF']
    if len(clef_cells) > 1 and any(c.src in ('*^', '*v') for c in m.cells()):
        acc.nontriv(digest(text))
    try:
        doc, errs = kp.loads(text)
    except Exception as e:  # noqa
        acc.violation(Viol('well-formed', 'import-raises', case, None, repr(e)[:100]))
        return
    for enc, ev in (('aekern', E.agnosticExtendedKern), ('akern', E.agnosticKern)):
        acc.count('transitions')
        try:
            out = kp.dumps(doc, encoding=ev)
        except ValueError as e:
            if not notes_without_clef:
                acc.violation(Viol('document', 'raises-although-every-note-has-a-clef', dict(case, encoding=enc), 'text', str(e)[:100]))
            continue
        except Exception as e:  # noqa
            acc.violation(Viol('document', 'raises', dict(case, encoding=enc), 'text', f'{type(e).__name__}: {str(e)[:100]}'))
            continue
        if notes_without_clef:
            acc.violation(Viol('document', 'output-although-a-note-has-no-clef', dict(case, encoding=enc), 'ValueError', out[:200]))
            continue
        acc.count('traces')
        acc.outcome(digest(out))
        probs = compare_export(m, out, enc, clefctx=ctx, bottom_of=bottom_of)
        for sym, detail in probs[:2]:
            acc.violation(Viol('document', sym, dict(case, encoding=enc), 'kern export with pitch letters converted under the clef in force', detail))
    if notes_without_clef:
        return
    # "differs from the kern export only in the pitch letters" also when sub-parts are filtered out
    from .. import catref
    for fname, exc in (('exclude-ALTERATION', ('ALTERATION',)), ('exclude-DURATION', ('DURATION',)), ('exclude-DECORATION-CLEF', ('DECORATION', 'CLEF'))):
        acc.count('transitions')
        try:
            out = kp.dumps(doc, encoding=E.agnosticExtendedKern, exclude={kp.TokenCategory[x] for x in exc})
        except Exception as e:  # noqa
            acc.violation(Viol('document-filtered', 'raises', dict(case, filter=fname), 'text', f'{type(e).__name__}: {str(e)[:100]}'))
            continue
        for sym, detail in compare_export(m, out, 'aekern', None, catref.selected(None, exc), ctx, bottom_of)[:1]:
            acc.violation(Viol('document-filtered', sym, dict(case, filter=fname), 'filtered kern export with pitch letters converted', detail))
    # one Exporter instance used for several encodings in a row
    try:
        ex = kp.Exporter()
        outs = [ex.export_string(doc, kp.ExportOptions(kern_type=k)) for k in (E.normalizedKern, E.agnosticKern, E.normalizedKern, E.agnosticExtendedKern)]
        acc.count('transitions', 4)
        for o, enc in zip(outs, ('kern', 'akern', 'kern', 'aekern')):
            for sym, detail in compare_export(m, o, enc, clefctx=ctx, bottom_of=bottom_of)[:1]:
                acc.violation(Viol('document-exporter-reused', sym, dict(case, encoding=enc), 'same as a fresh exporter', detail))
    except Exception as e:  # noqa
        acc.violation(Viol('document-exporter-reused', 'raises', case, 'text', f'{type(e).__name__}: {str(e)[:100]}'))


def _has_pitch(spec):
    notes = [spec] if spec['k'] == 'n' else spec['notes']
    return any(cat == 'PITCH' for n in notes for _, cat in n['main'])


def _big_doc_job(job):
    """documents far beyond the bounds: giant (1 950 lines, 336 different (clef, pitch) pairs, the first rows again at the end), aligned, 4 300 different notes under one clef"""
    from .. import docspace as D
    k, seed = job
    acc = Acc()
    j = (D.giant_jobs(seed) + D.aligned_jobs(seed) + [(['**kern'], ['DISTINCT'], seed), (['**kern', '**kern'], ['SIGNATURES'], seed), (['**kern', '**kern'], ['SIGNATURES'], seed + 2)])[k]
    m = D.materialise(j)
    # the document-level oracle works on (headers, history); global comments are left out (they play no part in this property)
    hist = [r for r in D.hist_of(m) if not isinstance(r, tuple)]
    check_doc(acc, m.headers, hist)
    acc.nontriv(('big', k, seed))
    return acc


def _job(job):
    headers, prefix, depth, seed, cap = job
    acc = Acc()
    X.walk(headers, depth, seed, cap, menu, lambda h: check_doc(acc, headers, h), prefix)
    if prefix:
        acc.sample({'text': X.build(headers, prefix).text()}, cap=1)
    return acc


def run(ctx):
    quick = ctx.quick
    seed = ctx.seed
    ctx.rule = ('pitch grid: clef x octave mark x letter x accidental x octave (API and one-note documents); documents: every enabled row sequence up to the depth bound with '
                'single-column clef changes, splits and joins; non-trivial = non-G2 clef / natural or display suffix / document with >= 2 clefs and a split or join')
    cfg = [(['**kern'], 5), (['**kern', '**kern'], 4), (['**kern', '**text'], 4), (['**root', '**kern'], 3)]
    if not quick:
        cfg = [(h, d + 1) for h, d in cfg] + [(['**text', '**kern', '**kern'], 4)]
    ctx.bounds = {'clefs': CLEF_BASE, 'octave_marks': MARKS, 'accidentals_api': ACC_API, 'accidentals_text': ACC_TXT, 'octaves': '0..8',
                  'documents': [{'headers': h, 'depth': d} for h, d in cfg], 'column_cap': 4}
    ctx.assumptions = ['anchor of the translation = the clef object\'s own bottom_line(), as the property words it', 'staff-step arithmetic from kv/pitchref.py',
                       'a note before any clef may raise ValueError but must not produce output']
    check_pitch_level(ctx)
    ctx.pmap(_one_note_job, [(b, mk) for b in CLEF_BASE for mk in (MARKS if not quick else ['', 'v', '^^'])], chunksize=1)
    ctx.pmap(_clef_sweep_job, [(o, a) for o in ('listed', 'reversed', 'by-mark') for a in (('', '#') if quick else ('', '#', 'n', '--', '-y'))], chunksize=1)
    ctx.pmap(_big_doc_job, [(k, seed) for k in range(7)], chunksize=1)
    jobs = []
    for h, d in cfg:
        shorter, js = X.walk_jobs(h, d, seed, 4, menu, split_at=min(2, d))
        a = Acc()
        for hist in shorter:
            check_doc(a, h, hist)
        ctx.merge(a)
        jobs += [(h, p, rem, seed, 4) for p, rem in js]
    ctx.pmap(_job, jobs, chunksize=1)


def replay(case):
    acc = Acc()
    if 'text' not in case:
        check_pitch_level(acc)
        return [v for v in acc.viol if v['case'].get('clef') == case.get('clef')] or acc.viol
    if 'sweep' in case:
        d = _clef_sweep_job((case['sweep'], case['accidental']))
        return d.viol
    if 'accidental' in case:
        ct = case['clef']
        base = ct[5] + ct[-1]
        mark = ct[6:-1]
        d = _one_note_job((base, mark))
        return [v for v in d.viol if v['case'].get('accidental') == case['accidental']]
    check_doc(acc, case['headers'], X.hist_from_json(case['hist']))
    return acc.viol
