"""C03 - Export conserves the score content cell for cell.
Space: all row sequences up to a depth over the full row alphabet for every header configuration, all <=k deviations from a
backbone score, palette-filled from the abstract corpora.  Oracle: reference exporter on the generator's own abstract cells."""
import kernpy as kp

from .. import alphabet as A
from .. import docspace as D
from .. import explore as X
from ..core import Acc, Viol, digest
from ..model import compare_export


def check_doc(acc, job, with_key=True):
    m = D.materialise(job, with_key=with_key, cap=16 if len(job[0]) > 6 else 6)
    if m is None:
        return
    text = m.text()
    case = {'text': text, 'headers': job[0], 'seq': job[1], 'seed': job[2]}
    acc.count('evaluations')
    acc.count('transitions', len(m.rows))
    acc.state(digest(text))
    f = D.features(m)
    if {'split', 'chord'} & f and ('nullrow' in f or 'types2' in f):
        acc.nontriv(digest(text))
    try:
        doc, errs = kp.loads(text)
    except Exception as e:  # noqa
        acc.violation(Viol('well-formed', 'import-raises', case, 'document', f'{type(e).__name__}: {str(e)[:100]}'))
        return
    if errs:
        acc.violation(Viol('well-formed', 'import-errors', case, 'no errors', [e.encoding for e in errs][:4]))
        return
    # start from a non-initial process state: filtered / other-encoding exports first (a cache keyed too coarsely would leak into the default export)
    if job[2] % 2 == 0:
        try:
            kp.dumps(doc, exclude={kp.TokenCategory.DECORATION})
            kp.dumps(doc, include={kp.TokenCategory.PITCH, kp.TokenCategory.BARLINES}, encoding=kp.Encoding.bEkern)
            acc.count('transitions', 2)
        except Exception:
            pass
    for enc, E in (('ekern', kp.Encoding.eKern), ('kern', None)):
        try:
            out = kp.dumps(doc, encoding=E) if E else kp.dumps(doc)
        except Exception as e:  # noqa
            acc.violation(Viol('well-formed', 'export-raises', dict(case, encoding=enc), 'text', f'{type(e).__name__}: {str(e)[:100]}'))
            continue
        probs = compare_export(m, out, enc)
        acc.count('traces')
        acc.outcome(digest(out))
        for sym, detail in probs[:2]:
            acc.violation(Viol('well-formed', sym, dict(case, encoding=enc), 'source grid minus comments/null rows', detail))


def same_text_models():
    """the SAME cell text first in a lyrics / dynamics column and then, after a split / join / early termination has moved the columns, in a kern column with the
    same column index (and the other way round): what a text means depends on the spine it is in, not on the column or on what was parsed before"""
    from ..model import Model
    out = []
    notes = [('L4c', A.note('4', 'c', '', ['L'], src='L4c')), (';8dd', A.note('8', 'dd', '', [';'], src=';8dd')), ('(4f#', A.note('4', 'f', '#', ['('], src='(4f#')),
             ("'2e", A.note('2', 'e', '', ["'"], src="'2e")), ('4c', A.note('4', 'c'))]
    for typ in ('**text', '**dynam', '**harm', '**fing'):
        for t, nspec in notes:
            tx = A.text_cell(t, typ)
            m = Model(['**kern', typ])                      # split: the second kern sub-spine takes the column of the text spine
            m.add([A.V('*clefG2', 'CLEF'), A.NULL_I])
            m.add([A.note('4', 'g'), tx])
            m.add([A.SPLIT, A.NULL_I])
            m.add([A.note('4', 'a'), nspec, tx])
            m.add([A.JOIN, A.JOIN, A.NULL_I])
            m.add([nspec, tx])
            out.append(m.close())
            m = Model([typ, '**kern'])                      # early termination: the kern spine moves to column 0
            m.add([A.NULL_I, A.V('*clefF4', 'CLEF')])
            m.add([tx, A.note('4', 'g')])
            m.add([A.TERM, A.NULL_I])
            m.add([nspec])
            out.append(m.close())
            m = Model(['**kern', typ])                      # the other way round: kern text first, then the same text as free text in its column
            m.add([A.V('*clefG2', 'CLEF'), A.NULL_I])
            m.add([nspec, A.text_cell('la', typ)])
            m.add([A.TERM, A.NULL_I])
            m.add([tx])
            out.append(m.close())
    return out


def _same_text_job(_seed):
    acc = Acc()
    for m in same_text_models():
        text = m.text()
        case = {'text': text, 'headers': m.headers, 'seq': ['same-text'], 'seed': 0}
        acc.count('evaluations')
        acc.nontriv(digest(text))
        try:
            doc, errs = kp.loads(text)
        except Exception as e:  # noqa
            acc.violation(Viol('well-formed', 'import-raises', case, 'document', f'{type(e).__name__}: {str(e)[:100]}'))
            continue
        if errs:
            acc.violation(Viol('well-formed', 'import-errors', case, 'no errors', [e.encoding for e in errs][:4]))
            continue
        for enc, E in (('ekern', kp.Encoding.eKern), ('kern', None)):
            out = kp.dumps(doc, encoding=E, spine_types=m.headers) if E else kp.dumps(doc, spine_types=m.headers)
            acc.count('transitions')
            acc.count('traces')
            for sym, detail in compare_export(m, out, enc)[:2]:
                acc.violation(Viol('well-formed', sym, dict(case, encoding=enc), 'source grid minus comments/null rows', detail))
    return acc


def _repetitive_job(seed):
    acc = Acc()
    for m in D.repetitive_models(seed) + [D.many_distinct_model(seed), D.giant_model(seed), D.distinct_single_model(seed), D.many_signatures_model(seed)] + [D.materialise(j) for j in D.aligned_jobs(seed)]:
        text = m.text()
        case = {'text': text, 'headers': m.headers, 'seq': ['repetitive'], 'seed': seed}
        acc.count('evaluations')
        acc.nontriv(digest(text))
        doc, errs = kp.loads(text)
        if errs:
            acc.violation(Viol('well-formed', 'import-errors', case, 'no errors', [e.encoding for e in errs][:4]))
            continue
        for enc, E in (('ekern', kp.Encoding.eKern), ('kern', None), ('ekern', kp.Encoding.eKern)):
            out = kp.dumps(doc, encoding=E) if E else kp.dumps(doc)
            acc.count('transitions')
            acc.count('traces')
            for sym, detail in compare_export(m, out, enc)[:2]:
                acc.violation(Viol('well-formed', sym, dict(case, encoding=enc), 'source grid minus comments/null rows', detail))
    return acc


def _job(jobs):
    acc = Acc()
    for j in jobs:
        check_doc(acc, j)
    if jobs:
        m = D.materialise(jobs[len(jobs) // 2], with_key=True)
        if m is not None:
            acc.sample({'text': m.text()}, cap=1)
    return acc


def token_skeleton_jobs(seed):
    """every member of every corpus in every column position of 1-3 column skeletons"""
    jobs = []
    for h in (['**kern'], ['**kern', '**text'], ['**dynam', '**kern', '**harm'], ['**root', '**fing', '**mxhm']):
        n = max(len(A.KDATA), len(A.KINT) + len(A.KINT_KEY), len(A.TEXT) + 1, len(A.BARS))
        for start in range(0, n, 1):
            jobs.append((h, ['i', 'b', 'd', 'c', 'd', 'i', 'b'], seed + start))
    return jobs


def run(ctx):
    quick = ctx.quick
    seeds = (ctx.seed, ctx.seed + 7)
    hdrs = A.HDR_QUICK if quick else A.hdr_thorough()[:24]
    depth = 3 if quick else 4
    k = 2
    ctx.rule = ('all symbol sequences up to the depth bound over {data, interpretation, comment, barline, null row, split, join, global comment} per header '
                'configuration + all <=k edits of a backbone score + every corpus member in every column; non-trivial = split or chord together with a null row or two spine types')
    ctx.bounds = {'header_configurations': len(hdrs), 'path_depth': depth, 'deviations_k': k, 'seeds': list(seeds), 'column_cap': 6}
    ctx.assumptions = ['reference = abstract cells of kv/alphabet.py rendered by kv/model.py; comparison leniencies of DESIGN §2.1',
                       'alphabet restrictions of DESIGN §2.7 (hidden barlines, separator characters, **mens excluded)']
    jobs = list(D.path_docs(hdrs, depth, seeds))
    dev_h = [['**kern'], ['**kern', '**text'], ['**text', '**kern', '**kern']] if quick else hdrs[:9]
    jobs += list(D.deviation_docs(dev_h, k, (ctx.seed,)))
    if not quick:
        jobs += list(D.deviation_docs([['**kern', '**text']], 3, (ctx.seed,), menu=['d', 'z', 'S0', 'J0', 'g', 'i']))
    jobs += token_skeleton_jobs(ctx.seed)
    longs = D.long_docs(ctx.seed) + D.long_docs(ctx.seed + 4) + D.wide_docs(ctx.seed) + D.wide_docs(ctx.seed + 1) + D.huge_docs(ctx.seed + 1)
    ctx.pmap(_same_text_job, [0], chunksize=1)
    ctx.pmap(_repetitive_job, [ctx.seed, ctx.seed + 1], chunksize=1)
    ctx.pmap(_job, [[j] for j in longs] + list(X.chunks(jobs, 150)), chunksize=1)


def replay(case):
    acc = Acc()
    if case.get('seq') == ['same-text']:
        return _same_text_job(0).viol
    if case.get('seq') == ['repetitive']:
        return _repetitive_job(case['seed']).viol
    check_doc(acc, (case['headers'], case['seq'], case['seed']))
    return acc.viol
