"""C13 - Export options act independently of one another.
Space: documents with >= 2 spines, >= 2 types, a split and a clef x {every subset of spine ids} x {every subset of the types present} x
{23 category selections} x {6 encodings} x {option omitted | passed with its explicit default}.
Oracle: T_enc(T_cat(T_spine(grid))) from the reference exporter - three transforms on the abstract grid that commute by construction."""
import itertools

import kernpy as kp

from .. import alphabet as A
from .. import catref
from .. import explore as X
from ..core import Acc, Viol, digest
from ..model import compare_export
from .c10 import bottom_of

TC = kp.TokenCategory
E = kp.Encoding
ENC = {'kern': E.normalizedKern, 'ekern': E.eKern, 'bkern': E.bKern, 'bekern': E.bEkern, 'akern': E.agnosticKern, 'aekern': E.agnosticExtendedKern}
SEQ = ['k', 'i', 'b', 'd', 'd', 'S0', 'd', 'c', 'd', 'J0', 'k', 'b', 'd', 'z', 'i', 'd', 'b']
SELECTIONS = [('none', None, None)] + [(f'exclude-{t}', None, (t,)) for t in catref.TOP] + [
    ('exclude-PITCH', None, ('PITCH',)), ('exclude-DURATION', None, ('DURATION',)), ('exclude-DECORATION', None, ('DECORATION',)),
    ('exclude-ALTERATION', None, ('ALTERATION',)), ('exclude-DURATION-REST', None, ('DURATION', 'REST')),
    ('include-core-structural-barlines', ('CORE', 'STRUCTURAL', 'BARLINES'), None),
    ('bekern-categories', 'BEKERN', None),
    ('include-noterest-header-ops', ('NOTE_REST', 'HEADER', 'SPINE_OPERATION'), None),
]
DEFAULT_TYPES = ["**mens", "**kern", "**text", "**harm", "**mxhm", "**root", "**dyn", "**dynam", "**fing"]


def subsets(xs):
    xs = list(xs)
    for k in range(len(xs) + 1):
        yield from itertools.combinations(xs, k)


def family(tier, seed):
    hdrs = [['**kern', '**text'], ['**text', '**kern', '**kern'], ['**root', '**fing', '**kern'], ['**mxhm', '**kern', '**dyn'],
            ['**kern', '**dynam', '**harm']]
    if tier != 'quick':
        hdrs += [['**kern', '**text', '**kern', '**dynam'], ['**dyn', '**kern'], ['**kern', '**harm', '**kern'], ['**text', '**text', '**kern'],
                 ['**kern', '**root', '**dyn'], ['**kern', '**fing', '**text', '**kern']]
    docs = []
    for h in hdrs:
        for sd in range(seed, seed + (3 if tier == 'quick' else 8)):
            m = X.seq_model(h, SEQ, sd, cap=6, with_key=False)
            if m is not None:
                docs.append((f'{"+".join(h)}#{sd}', m))
        # an invisible barline in the first / last column only (the same barline visible in the other columns)
        m = X.seq_model(h, ['k', 'i', 'b', 'd', 'h', 'd', 'S0', 'd', 'H', 'd', 'J0', 'h', 'd', 'H', 'b'], seed + 2, cap=6, with_key=False)
        if m is not None:
            docs.append((f'{"+".join(h)}/hidden-barlines#{seed + 2}', m))
        # the same with the first / second spine terminated early while the others go on
        for xi, sd in ((0, seed), (1, seed + 1)):
            m = X.seq_model(h, ['k', 'i', 'b', 'd', 'd', f'X{xi}', 'd', 'S0', 'd', 'J0', 'b', 'd', 'b'], sd, cap=6, with_key=False)
            if m is not None:
                docs.append((f'{"+".join(h)}/early-termination-{xi}#{sd}', m))
    return docs


def inc_exc(sel):
    _, inc, exc = sel
    if inc == 'BEKERN':
        inc = tuple(c.name for c in kp.BEKERN_CATEGORIES)
    return inc, exc


def _job(job):
    di, tier, seed, part, nparts = job
    acc = Acc()
    name, m = family(tier, seed)[di]
    text = m.text()
    doc, errs = kp.loads(text)
    ctxm = m.context()
    ns = len(m.headers)
    types_present = sorted(set(m.headers))
    acc.state(digest(text))
    combos = [(ids, ts) for ids in subsets(range(ns)) for ts in subsets(types_present)]
    k = 0
    for ids, ts in combos:
        keep = {i for i in ids if m.headers[i] in ts}
        for sel in SELECTIONS:
            k += 1
            if k % nparts != part:
                continue
            inc, exc = inc_exc(sel)
            S = catref.selected(inc, exc)
            for enc, ev in ENC.items():
                kw = {}
                if len(ids) < ns:
                    kw['spine_ids'] = list(ids)
                if len(ts) < len(types_present):
                    kw['spine_types'] = list(ts)
                if inc is not None:
                    kw['include'] = {TC[x] for x in inc}
                if exc is not None:
                    kw['exclude'] = {TC[x] for x in exc}
                if enc != 'kern':
                    kw['encoding'] = ev
                case = {'doc': name, 'seed': seed, 'tier': tier, 'text': text, 'spine_ids': list(ids), 'spine_types': list(ts), 'selection': sel[0], 'encoding': enc}
                acc.count('evaluations')
                acc.count('transitions')
                nondefault = sum([len(ids) < ns or len(ts) < len(types_present), sel[0] != 'none', enc != 'kern'])
                try:
                    out = kp.dumps(doc, **kw)
                except Exception as e:  # noqa
                    acc.violation(Viol('option-product', 'raises', case, 'text', f'{type(e).__name__}: {str(e)[:100]}'))
                    continue
                acc.count('traces')
                if nondefault >= 2 and out:
                    acc.nontriv((di, ids, ts, sel[0], enc))
                acc.outcome(digest(out))
                probs = compare_export(m, out, enc, keep, S, ctxm, bottom_of)
                for sym, detail in probs[:1]:
                    acc.violation(Viol('option-product', sym, case, 'composition of the three single-option transformations', detail))
                # explicit defaults == omitted (rotating: one explicit-default spelling per case)
                alts = [('spine_types', list(DEFAULT_TYPES)), ('spine_types', set(DEFAULT_TYPES)), ('spine_ids', list(range(ns))), ('include', set(TC)),
                        ('include', list(TC)), ('exclude', []), ('exclude', set()), ('encoding', E.normalizedKern), ('from_measure', None), ('to_measure', None),
                        ('spine_ids', tuple(range(ns))), ('instruments', None), ('show_measure_numbers', None)]
                key, val = alts[k % len(alts)]
                if key not in kw:
                    kw2 = dict(kw)
                    kw2[key] = val
                    acc.count('transitions')
                    try:
                        out2 = kp.dumps(doc, **kw2)
                    except Exception as e:  # noqa
                        out2 = f'{type(e).__name__}: {str(e)[:80]}'
                    if out2 != out:
                        acc.violation(Viol('explicit-default', 'differs-from-omitting-the-option', dict(case, explicit=key, value=repr(val)[:60]), out, out2))
                # the same option VALUES written differently (order, repetition, container type) while the other options are in force
                forms = []
                if len(kw.get('spine_ids', ())) >= 2:
                    ids_ = kw['spine_ids']
                    forms += [('spine_ids', ids_[::-1]), ('spine_ids', ids_ + ids_[-1:] + ids_[:1]), ('spine_ids', tuple(ids_[::-1]))]
                if len(kw.get('spine_types', ())) >= 2:
                    ts_ = kw['spine_types']
                    forms += [('spine_types', ts_[::-1]), ('spine_types', ts_ + ts_[:1])]
                if 'include' in kw:
                    forms += [('include', sorted(kw['include'], key=lambda c: c.name)), ('include', tuple(sorted(kw['include'], key=lambda c: c.name, reverse=True)))]
                if 'exclude' in kw:
                    forms += [('exclude', sorted(kw['exclude'], key=lambda c: c.name, reverse=True))]
                if forms:
                    key, val = forms[k % len(forms)]
                    kw3 = dict(kw)
                    kw3[key] = val
                    acc.count('transitions')
                    try:
                        out3 = kp.dumps(doc, **kw3)
                    except Exception as e:  # noqa
                        out3 = f'{type(e).__name__}: {str(e)[:80]}'
                    if out3 != out:
                        acc.violation(Viol('written-form-of-an-option', 'export-depends-on-order-repetition-or-container-of-the-option-value',
                                           dict(case, option=key, written=repr(val)[:80]), out, out3))
    if part == 0:
        # the options-OBJECT interface (Exporter.export_string / kp.export): one ExportOptions instance reused for a smaller document first
        small, _ = kp.loads('**kern\n*clefG2\n=1\n4c\n=2\n4d\n*-\n')
        for label, mk, enc, S in (('default', lambda: kp.ExportOptions(), 'kern', catref.ALL),
                                  ('ekern-no-decoration', lambda: kp.ExportOptions(kern_type=E.eKern, token_categories=[c for c in TC if c != TC.DECORATION]), 'ekern',
                                   catref.ALL - {'DECORATION'})):
            opts = mk()
            case = {'doc': name, 'seed': seed, 'tier': tier, 'text': text, 'options_object': label}
            acc.count('transitions', 2)
            try:
                kp.Exporter().export_string(small, opts)
                out = kp.Exporter().export_string(doc, opts)
            except Exception as e:  # noqa
                acc.violation(Viol('options-object-reused', 'raises', case, 'text', f'{type(e).__name__}: {str(e)[:100]}'))
                continue
            for sym, detail in compare_export(m, out, enc, None, S, ctxm, bottom_of)[:1]:
                acc.violation(Viol('options-object-reused', 'result-depends-on-an-earlier-export-with-the-same-options-object', case, None, detail))
    if di == 0 and part == 0:
        acc.sample({'doc': name, 'text': text, 'options': 'spine id subsets x type subsets x 23 selections x 6 encodings'})
    return acc


RANGE_OPTS = [
    ('ekern', {'encoding': E.eKern}, True),
    ('no-decoration', {'exclude': {TC.DECORATION}}, True),
    ('first-spine', {'spine_ids': [0]}, True),
    ('last-spine', {'spine_ids': 'LAST'}, True),
    ('kern-types', {'spine_types': ['**kern']}, True),
    ('first-spine+ekern+no-decoration', {'spine_ids': [0], 'encoding': E.eKern, 'exclude': {TC.DECORATION}}, True),
    ('kern-types+bekern', {'spine_types': ['**kern'], 'encoding': E.bEkern}, True),
    ('all-but-first+no-barlines', {'spine_ids': 'REST', 'exclude': {TC.BARLINES}}, False),
    ('last-spine+no-barlines+ekern', {'spine_ids': 'LAST', 'exclude': {TC.BARLINES}, 'encoding': E.eKern}, False),
    ('kern-types+akern+no-signatures', {'spine_types': ['**kern'], 'encoding': E.agnosticKern, 'exclude': {TC.SIGNATURES}}, True),
    ('two-spines+include-core-structure', {'spine_ids': 'FIRST_LAST', 'include': {TC.CORE, TC.STRUCTURAL, TC.BARLINES}}, True),
]


WIDE14 = ['**kern', '**text', '**kern', '**dynam', '**kern', '**harm', '**kern', '**fing', '**root', '**kern', '**mxhm', '**kern', '**kern', '**text']
BIG_SELECTIONS = [('none', None, None), ('exclude-DECORATION', None, ('DECORATION',)), ('include-SIGNATURES', ('SIGNATURES',), None), ('exclude-CORE', None, ('CORE',)),
                  ('include-core-structural-barlines', ('CORE', 'STRUCTURAL', 'BARLINES'), None), ('include-DECORATION-BARLINES', ('DECORATION', 'BARLINES'), None),
                  ('exclude-BARLINES-COMMENTS', None, ('BARLINES', 'COMMENTS'))]


def big_model(which, seed):
    from .. import docspace as D
    if which == 'giant':
        return D.giant_model(seed)
    if which == 'distinct':
        return D.distinct_single_model(seed)
    if which.startswith('aligned'):
        return D.aligned_model(seed, int(which[7:]))
    # fourteen spines (two-digit ids: [1, 2] / [12], [1, 3] / [13] written without a separator coincide), ~90 rows
    return X.seq_model(WIDE14, ['k', 'i', 'b'] + ['d', 'd', 'S0', 'd', 'J0', 'b', 'c', 'd', 'z', 'b'] * 8, seed, cap=20, with_key=False)


def _big_job(job):
    """documents far beyond the bounds of the exhaustive family (1 900 lines / 14 spines) x a hand-picked option product, all on ONE Document object"""
    which, seed, part = job
    acc = Acc()
    m = big_model(which, seed)
    text = m.text()
    doc, errs = kp.loads(text)
    ctxm = m.context()
    ns = len(m.headers)
    idsets = [None, [0], [ns - 1], [1, 2], [0, ns - 1], list(range(1, ns)), [1, 3]] + ([[12], [13], [1], [11], [1, 1, 2], [2, 1]] if ns > 13 else [[2, 1], [3]])
    idsets = [ids for ids in idsets if ids is None or all(i < ns for i in ids)]
    tsets = [None, ['**kern'], ['**text', '**kern']]
    k = 0
    for ids in idsets:
        for ts in tsets:
            if ids is not None and ts is not None and ts != ['**kern']:
                continue
            keep = {i for i in (range(ns) if ids is None else ids) if ts is None or m.headers[i] in ts}
            for sel in BIG_SELECTIONS:
                for enc in ('kern', 'ekern', 'aekern', 'bkern'):
                    k += 1
                    if k % 4 != part:
                        continue
                    _, inc, exc = sel
                    S = catref.selected(inc, exc)
                    kw = {}
                    if ids is not None:
                        kw['spine_ids'] = list(ids)
                    if ts is not None:
                        kw['spine_types'] = list(ts)
                    if inc is not None:
                        kw['include'] = {TC[x] for x in inc}
                    if exc is not None:
                        kw['exclude'] = {TC[x] for x in exc}
                    if enc != 'kern':
                        kw['encoding'] = ENC[enc]
                    case = {'big': [which, seed, part], 'doc': which, 'spine_ids': ids, 'spine_types': ts, 'selection': sel[0], 'encoding': enc, 'text': f'({which} document, seed {seed})'}
                    acc.count('evaluations')
                    acc.count('transitions')
                    try:
                        out = kp.dumps(doc, **kw)
                    except Exception as e:  # noqa
                        acc.violation(Viol('option-product-big-document', 'raises', case, 'text', f'{type(e).__name__}: {str(e)[:100]}'))
                        continue
                    acc.count('traces')
                    acc.nontriv((which, k))
                    for sym, detail in compare_export(m, out, enc, keep, S, ctxm, bottom_of)[:1]:
                        acc.violation(Viol('option-product-big-document', sym, case, 'composition of the three single-option transformations', detail))
    return acc


def _range_job(job):
    """measure ranges together with the other options: the excerpt must be well formed (SpineModel acceptor of C08) and, where barlines are kept,
    its data lines must be those of the same measures in the whole export under the same options (tiling oracle of C07)"""
    di, tier, seed = job
    from . import c07, c08
    acc = Acc()
    name, m = family(tier, seed)[di]
    text = m.text()
    doc, _ = kp.loads(text)
    try:
        M = doc.measures_count()
    except Exception:
        return acc
    ns = len(m.headers)
    for label, o, tiling in RANGE_OPTS:
        kw = {}
        for k, v in o.items():
            kw[k] = {'LAST': [ns - 1], 'REST': list(range(1, ns)), 'FIRST_LAST': sorted({0, ns - 1})}.get(v, v) if isinstance(v, str) else v
        case = {'doc': name, 'seed': seed, 'tier': tier, 'text': text, 'range_options': label}
        sel = {i for i in range(ns) if (('spine_ids' not in kw) or i in kw['spine_ids']) and (('spine_types' not in kw) or m.headers[i] in kw['spine_types'])}
        crows = m.crows()
        bar_rows = [r for r in crows if r and r[0].spec.get('cat') == 'BARLINES']
        selected_alive_throughout = all(any(c.spine in sel for c in r) for r in bar_rows)
        starts = c08.model_measures([[c.src for c in r] for r in crows])
        if tiling and selected_alive_throughout:
            tmp = Acc()
            c07.oracle(tmp, text, dict(case), kw)
            acc.count('transitions', tmp.n.get('transitions', 0))
            acc.count('evaluations', tmp.n.get('evaluations', 0))
            for v in tmp.viol:
                acc.violation(Viol('range-with-options', v['cls'] + ':' + v['symptom'], dict(v['case'], range_options=label), v['expected'], v['observed']))
        try:
            fullctx = c08.contexts([x.split('\t') for x in kp.dumps(doc, **kw).split('\n') if x])
        except Exception:
            fullctx = None
        enc_name = kw['encoding'].value if 'encoding' in kw else 'kern'
        header_selected = (('include' not in kw) or TC.HEADER in TC.valid(include=kw['include'])) and TC.HEADER not in TC.valid(include=kw.get('exclude') or set()) if kw.get('exclude') else True
        for a in range(1, M + 1):
            for b in range(a, M + 1):
                acc.count('transitions')
                acc.count('evaluations')
                acc.nontriv((di, label, a, b))
                c2 = dict(case, from_measure=a, to_measure=b)
                if len(starts) == M and not any(c.spine in sel for c in crows[starts[a - 1]]):
                    continue        # none of the selected spines is alive where the range starts: nothing is claimed about such an export
                try:
                    out = kp.dumps(doc, from_measure=a, to_measure=b, **kw)
                except Exception as e:  # noqa
                    acc.violation(Viol('range-with-options', 'raises', c2, 'text', f'{type(e).__name__}: {str(e)[:100]}'))
                    continue
                acc.count('traces')
                if out == '':
                    continue        # no selected spine is alive in that range
                rows = [x.split('\t') for x in out.split('\n') if x]
                try:
                    ectx = c08.contexts(rows)
                except ValueError as e:
                    sym = str(e)
                    sym = 'cell-count-inconsistent-with-spine-operators' if sym.startswith('cell-count') else sym
                    acc.violation(Viol('range-with-options', 'malformed-' + sym, c2, 'well-formed Humdrum', out[:300]))
                    continue
                # the header line: '**' + encoding prefix + type of the selected spines alive at the start of the range, in column order
                if len(starts) == M:
                    live = [c.spine for c in crows[starts[a - 1]] if c.spine in sel]
                    if len(live) == len(set(live)) and header_selected:
                        from ..model import PREFIX
                        exp_h = ['**' + PREFIX[enc_name] + m.headers[i][2:] for i in live]
                        if rows[0] != exp_h:
                            acc.violation(Viol('range-with-options', 'header-line-is-not-prefix-plus-type-of-the-selected-spines', c2, exp_h, rows[0]))
                # every cell of the excerpt is governed by the same clef / key / time signature as in the whole export under the same options
                if fullctx is not None:
                    mlen = len(ectx)
                    if not any(fullctx[i:i + mlen] == ectx for i in range(len(fullctx) - mlen + 1)):
                        okd = any([x[0] for x in fullctx[i:i + mlen]] == [x[0] for x in ectx] for i in range(len(fullctx) - mlen + 1))
                        acc.violation(Viol('range-with-options', 'cells-governed-by-other-signatures' if okd else 'cells-differ-from-the-whole-export', c2, None, ectx[:4]))
    return acc


def run(ctx):
    fam = family(ctx.tier, ctx.seed)
    ctx.rule = ('documents x (spine-id subsets x type subsets x 23 category selections x 6 encodings) + one explicit-default spelling per case; '
                'non-trivial = at least two of the three options are non-default and the export is not empty')
    ctx.bounds = {'documents': len(fam), 'selections': len(SELECTIONS), 'encodings': 6}
    ctx.assumptions = ['reference exporter kv/model.py; agnostic pitch from kv/pitchref.py anchored at the clef object\'s own bottom line (C10 decides the anchor)',
                       'comparison leniencies of DESIGN §2.1']
    nparts = 8
    ctx.pmap(_big_job, [(w, ctx.seed, p) for w in ('giant', 'wide14', 'aligned128', 'aligned256', 'aligned1100', 'distinct') for p in range(4)], chunksize=1)
    ctx.pmap(_job, [(di, ctx.tier, ctx.seed, p, nparts) for di in range(len(fam)) for p in range(nparts)], chunksize=1)
    # (measure ranges are not driven on the documents with invisible barlines: what a measure is when a barline is hidden in one column only is not settled by any property)
    ctx.pmap(_range_job, [(di, ctx.tier, ctx.seed) for di in range(len(fam)) if 'hidden-barlines' not in fam[di][0]], chunksize=1)


def replay(case):
    acc = Acc()
    if 'big' in case:
        return _big_job(tuple(case['big'])).viol
    if 'range_options' in case:
        fam = family(case.get('tier', 'quick'), case.get('seed', 0))
        di = [n for n, _ in fam].index(case['doc'])
        d = _range_job((di, case.get('tier', 'quick'), case.get('seed', 0)))
        return [v for v in d.viol if v['case'].get('range_options') == case['range_options']]
    if 'options_object' in case:
        fam = family(case.get('tier', 'quick'), case.get('seed', 0))
        di = [n for n, _ in fam].index(case['doc'])
        d = _job((di, case.get('tier', 'quick'), case.get('seed', 0), 0, 10 ** 9))
        return [v for v in d.viol if v['cls'] == 'options-object-reused']
    for name, m in family(case.get('tier', 'quick'), case.get('seed', 0)):
        if name != case['doc']:
            continue
        doc, _ = kp.loads(m.text())
        sel = next(s for s in SELECTIONS if s[0] == case['selection'])
        inc, exc = inc_exc(sel)
        S = catref.selected(inc, exc)
        kw = {'spine_ids': list(case['spine_ids']), 'spine_types': list(case['spine_types']), 'encoding': ENC[case['encoding']]}
        if inc is not None:
            kw['include'] = {TC[x] for x in inc}
        if exc is not None:
            kw['exclude'] = {TC[x] for x in exc}
        keep = {i for i in case['spine_ids'] if m.headers[i] in case['spine_types']}
        try:
            out = kp.dumps(doc, **kw)
        except Exception as e:  # noqa
            acc.violation(Viol('option-product', 'raises', case, None, repr(e)[:100]))
            return acc.viol
        for sym, detail in compare_export(m, out, case['encoding'], keep, S, m.context(), bottom_of)[:1]:
            acc.violation(Viol('option-product', sym, case, None, detail))
        if 'explicit' in case:
            d = _job((0, case.get('tier', 'quick'), case.get('seed', 0), 0, 1))
            return [v for v in d.viol if v['cls'] == 'explicit-default'][:1]
    return acc.viol
