"""C15 - Transposing a document moves pitches and nothing else.
Space: documents (core-only: single notes without explicit accidentals, rests, non-kern spines, splits; mixed: + notes with accidentals, chords, grace
notes) x 40 intervals x 2 directions.  Oracle: grid conservation + C09's arithmetic from kv/pitchref.py.
Cells are labelled single-note-no-accidental (claimed core) | note-with-explicit-accidental | chord-note; the state of the source document after
the call is a class of its own.  Failures outside the core are tracked as known findings, as the property prescribes."""
import kernpy as kp

from .. import alphabet as A
from .. import explore as X
from .. import pitchref as R
from ..core import Acc, Viol, digest
from ..model import Model, ref_rows

E = kp.Encoding
CORE_NOTES = [A.note('4', 'c'), A.note('8.', 'ee', '', ['J', ';'], src='8.eeJ;'), A.note('2', 'BB', '', ['(']), A.note('16', 'ccc', '', ['L', ')'], src='16cccL)'),
              A.note('8q', 'g'), A.note('4', 'FF', '', ["'"]), A.note('1', 'a'), A.note('4', 'D', '', ['^', '~']), A.N('qf', [('f', 'PITCH')], ['q']),
              A.note('2..', 'b', '', ['[']), A.note('4', 'CCC'), A.note('8', 'dddd')]
RESTS = [A.rest('4'), A.rest('8.', [';'])]


def core_doc(headers, seed, with_split=True):
    m = Model(headers)
    n = [0]

    def row(kind):
        out = []
        for i, t in enumerate(m.types()):
            if kind == 'b':
                out.append(A.BAR(seed + n[0]))
            elif kind == 'k':
                out.append(A.V('*clefG2', 'CLEF') if t == '**kern' else A.NULL_I)
            elif t == '**kern':
                pal = CORE_NOTES + RESTS + [A.NULL_D]
                out.append(pal[(n[0] * 5 + i * 3 + seed) % len(pal)])
            else:
                out.append(A.data_cell(t, n[0], i, seed))
        n[0] += 1
        if kind == 'b':
            out = [out[0]] * len(out)
        m.add(out)
    for k in ['k', 'b', 'd', 'd', 'd']:
        row(k)
    if with_split:
        m.add([A.SPLIT if i == 0 else A.NULL_I for i in range(m.width())])
        row('d')
        row('d')
        m.add([A.JOIN if i in (0, 1) else A.NULL_I for i in range(m.width())])
    for k in ['b', 'd', 'd', 'd', 'b']:
        row(k)
    return m.close()


def docs(tier, seed):
    out = []
    hs = [['**kern'], ['**kern', '**text'], ['**dynam', '**kern', '**kern']]
    if tier != 'quick':
        hs += [['**kern', '**harm', '**kern'], ['**fing', '**kern']]
    for h in hs:
        for sd in range(seed, seed + (4 if tier == 'quick' else 12)):
            out.append((f'core:{"+".join(h)}#{sd}', core_doc(h, sd, with_split=sd % 2 == 0)))
    for h in hs[:3 if tier == 'quick' else 5]:
        for sd in range(seed, seed + (3 if tier == 'quick' else 10)):
            m = X.seq_model(h, ['k', 'b', 'd', 'd', 'S0', 'd', 'J0', 'b', 'd', 'd', 'b'], sd, cap=6)
            out.append((f'mixed:{"+".join(h)}#{sd}', m))
    return out


def note_triple(spec_note):
    """(letter, alteration, octave, explicit_accidental_text) of an abstract note or None for a rest"""
    pit = [t for t, c in spec_note['main'] if c == 'PITCH']
    if not pit:
        return None
    acc = [t for t, c in spec_note['main'] if c == 'ALTERATION']
    l, _, o = R.parse(pit[0])
    a = acc[0] if acc else ''
    base = a.rstrip('XxiIjZyY')
    alt = base.count('#') - base.count('-')
    return l, alt, o, a


def parse_ext_note(txt):
    """extended-encoding note -> (sorted durations+rest, pitch text (pitch + accidental components joined), sorted signifiers)"""
    parts = txt.split('·')
    main = [x for x in parts[0].split('@') if x]
    dec = sorted(x for x in parts[1:] if x)
    durs = sorted(x for x in main if x[0].isdigit() or x in ('.', 'q', 'qq', 'p', 'P', 'r'))
    rest = [x for x in main if not (x[0].isdigit() or x in ('.', 'q', 'qq', 'p', 'P', 'r'))]
    return durs, ''.join(rest), dec


def check_case(acc, name, m, interval, direction, tier='quick', seed=0):
    text = m.text()
    case = {'doc': name, 'text': text, 'interval': interval, 'direction': direction, 'tier': tier, 'seed': seed}
    acc.count('evaluations')
    acc.count('transitions', 3)
    doc, errs = kp.loads(text)
    before = kp.dumps(doc, encoding=E.eKern)
    rows = ref_rows(m)
    lines0 = before.split('\n')[:-1]
    if len(lines0) != len(rows):
        return      # C03 decides the export of the source
    # predictions
    preds = {}
    unspellable = False
    only_core = True
    for r in rows:
        for c in r['cells']:
            sp = c.spec
            notes = [sp] if sp['k'] == 'n' else (sp['notes'] if sp['k'] == 'c' else [])
            for ni, nt in enumerate(notes):
                t = note_triple(nt)
                if t is None:
                    continue
                exp = R.transpose(t[:3], interval, direction)
                preds[(id(c), ni)] = (t, exp)
                if abs(exp[1]) > 2:
                    unspellable = True
                if sp['k'] == 'c' or t[3]:
                    only_core = False
    try:
        T = doc.to_transposed(interval, direction)
    except Exception as e:  # noqa
        if unspellable:
            acc.outcome('raises-unspellable')
            return
        has_acc = any(t[3] for (t, _) in preds.values())
        acc.violation(Viol('call-on-document-with-explicit-accidentals' if has_acc else 'call', 'raises-although-every-result-is-spellable', case,
                           'a document', f'{type(e).__name__}: {str(e)[:80]}'))
        return
    acc.count('traces')
    after = kp.dumps(doc, encoding=E.eKern)
    if after != before:
        acc.violation(Viol('source-document-after-call', 'exports-of-the-source-changed', case, before[:300], after[:300]))
    out = kp.dumps(T, encoding=E.eKern)
    acc.outcome(digest(out))
    lines = out.split('\n')[:-1]
    if len(lines) != len(lines0) or any(len(a.split('\t')) != len(b.split('\t')) for a, b in zip(lines, lines0)):
        acc.violation(Viol('grid', 'row-or-cell-count-changed', case, len(lines0), len(lines)))
        return
    for r, l0, l1 in zip(rows, lines0, lines):
        for c, x0, x1 in zip(r['cells'], l0.split('\t'), l1.split('\t')):
            sp = c.spec
            if sp['k'] == 'v':
                if x1 != x0:
                    acc.violation(Viol('non-note-cell', 'changed-by-transposition', dict(case, cell=sp['src']), x0, x1))
                continue
            notes = [sp] if sp['k'] == 'n' else sp['notes']
            n0 = x0.split(' ') if sp['k'] == 'c' else [x0]
            n1 = x1.split(' ') if sp['k'] == 'c' else [x1]
            if len(n1) != len(notes) or len(n0) != len(notes):
                acc.violation(Viol('chord-note' if sp['k'] == 'c' else 'single-note-no-accidental', 'note-count-changed', dict(case, cell=sp['src']), x0, x1))
                continue
            for ni, (nt, a0, a1) in enumerate(zip(notes, n0, n1)):
                p = preds.get((id(c), ni))
                d0, p0, s0 = parse_ext_note(a0)
                d1, p1, s1 = parse_ext_note(a1)
                if p is None:
                    if a1 != a0:
                        acc.violation(Viol('rest', 'changed-by-transposition', dict(case, cell=sp['src']), a0, a1))
                    continue
                t, exp = p
                cls = 'chord-note' if sp['k'] == 'c' else ('note-with-explicit-accidental' if t[3] else 'single-note-no-accidental')
                acc.count('cells:' + cls)
                if cls == 'single-note-no-accidental':
                    acc.nontriv((name, interval, direction, c.row, c.col))
                if d1 != d0 or s1 != s0:
                    acc.violation(Viol(cls, 'duration-or-signifiers-changed', dict(case, cell=sp['src']), a0, a1))
                if abs(exp[1]) > 2:
                    continue
                try:
                    q1 = p1.rstrip('XxiIjZyY')
                    got = R.parse(q1[:-1] if q1.endswith('n') else q1)      # a natural sign spells alteration 0
                except ValueError:
                    got = p1
                if got != exp:
                    sym = 'pitch-not-transposed' if p1 == p0 and interval != 'P1' else 'wrong-pitch'
                    acc.violation(Viol(cls, sym, dict(case, cell=sp['src']), R.spell(*exp), p1))
    # transposing the result back restores the source export
    try:
        back = T.to_transposed(interval, 'down' if direction == 'up' else 'up')
        acc.count('transitions')
        ob = kp.dumps(back, encoding=E.eKern)
        if ob != before:
            acc.violation(Viol('round-trip-core-notes-only' if only_core else 'round-trip-with-accidentals-or-chords', 'transposing-back-does-not-restore-the-source-export', case, before[:300], ob[:300]))
    except Exception as e:  # noqa
        if not unspellable:
            acc.violation(Viol('round-trip-core-notes-only' if only_core else 'round-trip-with-accidentals-or-chords', 'transposing-back-raises', case, None, f'{type(e).__name__}: {str(e)[:80]}'))


def _job(job):
    di, tier, seed, lo, hi = job
    acc = Acc()
    name, m = docs(tier, seed)[di]
    acc.state(digest(m.text()))
    for interval in R.INTERVAL_NAMES[lo:hi]:
        for direction in ('up', 'down'):
            check_case(acc, name, m, interval, direction, tier, seed)
    if lo == 0:
        acc.sample({'doc': name, 'text': m.text(), 'transpositions': '40 intervals x up/down'}, cap=1)
    return acc


def run(ctx):
    D = docs(ctx.tier, ctx.seed)
    ctx.rule = 'documents x 40 intervals x 2 directions; every cell labelled by class; non-trivial = transposed single note without explicit accidental (the claimed core)'
    ctx.bounds = {'documents': len(D), 'intervals': 40, 'directions': 2}
    ctx.assumptions = ['pitch arithmetic from kv/pitchref.py (C09)', 'the call may raise only if some note of the document has an exact result beyond two accidentals']
    # argument validation on the menu's edges
    d, _ = kp.loads('**kern\n*clefG2\n4c\n*-\n')
    for bad in (('Q3', 'up'), ('M2', 'sideways'), ('', 'up'), ('m2', 'UPWARDS')):
        ctx.count('transitions')
        try:
            d.to_transposed(*bad)
            ctx.violation(Viol('arguments', 'invalid-interval-or-direction-accepted', {'doc': 'tiny', 'text': '**kern\n*clefG2\n4c\n*-\n', 'interval': bad[0], 'direction': bad[1]}, 'ValueError', 'returned'))
        except ValueError:
            pass
        except Exception as e:  # noqa
            ctx.violation(Viol('arguments', 'wrong-exception-type', {'doc': 'tiny', 'text': '', 'interval': bad[0], 'direction': bad[1]}, 'ValueError', type(e).__name__))
    ctx.pmap(_job, [(di, ctx.tier, ctx.seed, lo, lo + 5) for di in range(len(D)) for lo in range(0, 40, 5)], chunksize=1)
    ctx.extra['cells_per_class'] = {k[6:]: v for k, v in ctx.n.items() if k.startswith('cells:')}


def replay(case):
    acc = Acc()
    if case.get('doc') == 'tiny':
        return acc.viol
    for name, m in docs(case.get('tier', 'quick'), case.get('seed', 0)):
        if name == case['doc']:
            check_case(acc, name, m, case['interval'], case['direction'], case.get('tier', 'quick'), case.get('seed', 0))
    return acc.viol
