"""C01 - Normalised export is a fixed point of import-then-export; the normal form is canonical.

(a) token level, exhaustive: every abstract note (duration x pitch x accidental x signifier set of size <= 2) in EVERY written
    variant (order, slot placement before/after duration, pitch, accidental, and doubling of each signifier); rests and chords over
    their own alphabets.  One normal form per abstract note; each normal form is a fixed point, through the plain and the extended route.
(b) document level: the C03 document space (paths + deviations) - differential fixed point, no reference model needed.
"""
import itertools

import kernpy as kp

from .. import alphabet as A
from .. import docspace as D
from .. import explore as X
from ..core import Acc, Viol, digest

DUR = ['4', '8.', '2..', '16%3', '8q', '8qq', '4p', '4P', '', '8.q', '16.P']
PIT = ['c', 'bb', 'B', 'FF', 'ccc']
ACC = ['', '#', '-', '##', '--', 'n', '#X', '-y']
REST_SIG = [';', '(', ')', "'", '{', '}']
E = kp.Encoding


def legal(sigs, acc):
    if acc and any(s in A.SIG_DISPLAY for s in sigs):
        return False
    if 'W' in sigs and 'w' in sigs:
        return False
    return True


def variants(dur, pit, acc, sigs, rest=False):
    """all placements of every order of the signifiers over the slots, with each signifier single or doubled"""
    if rest:
        slots = [0, 3] if dur else [3]
    else:
        slots = [0, 1, 2, 3] if acc else [0, 1, 3]
        if not dur:
            slots = [s for s in slots if s != 0]
    out = set()
    for order in itertools.permutations(sigs):
        for place in itertools.product(slots, repeat=len(order)):
            for dbl in itertools.product([1, 2], repeat=len(order)):
                parts = ['', '', '', '']
                for s, p, d in zip(order, place, dbl):
                    parts[p] += s * d
                out.add(parts[0] + dur + parts[1] + pit + parts[2] + acc + parts[3])
    return sorted(out)


def strip_ekern(e1):
    """the statement's own route: remove the two separators; map the '**e<type>' headers back"""
    lines = e1.split('\n')
    if lines and lines[0].startswith('**'):
        lines[0] = '\t'.join('**' + c[3:] if c.startswith('**e') else c for c in lines[0].split('\t'))
    return '\n'.join(lines).replace('@', '').replace('·', '')


def fixed_point(acc, text, case, cls, expect_rows=None):
    """the differential oracle.  Returns (kern cells, ekern cells) of the rows or None"""
    acc.count('transitions')
    try:
        doc, err = kp.loads(text)
    except Exception as e:  # noqa
        acc.violation(Viol(cls, 'import-raises', case, None, f'{type(e).__name__}: {str(e)[:100]}'))
        return None
    if err:
        acc.violation(Viol(cls, 'import-errors', case, 'no errors', [e.encoding for e in err][:3]))
        return None
    try:
        k1 = kp.dumps(doc)
        e1 = kp.dumps(doc, encoding=E.eKern)
        d2, err2 = kp.loads(k1)
        acc.count('transitions', 2)
        if err2:
            acc.violation(Viol(cls, 'normal-form-reimports-with-errors', case, 'no errors', [e.encoding for e in err2][:3]))
        else:
            k2 = kp.dumps(d2)
            if k2 != k1:
                acc.violation(Viol(cls, 'not-a-fixed-point', case, k1, k2))
        seen_texts = {k1: (d2, err2)}       # importing the same text twice is pointless: the import is deterministic (C14)
        for route, fn in (('strip-separators', strip_ekern), ('get_kern_from_ekern', kp.get_kern_from_ekern)):
            k = fn(e1)
            if k not in seen_texts:
                seen_texts[k] = kp.loads(k)
                acc.count('transitions')
            d3, err3 = seen_texts[k]
            acc.count('transitions')
            if err3:
                acc.violation(Viol(cls, 'extended-route-reimports-with-errors', dict(case, route=route), 'no errors', [e.encoding for e in err3][:3]))
                continue
            e3 = kp.dumps(d3, encoding=E.eKern)
            if e3 != e1:
                acc.violation(Viol(cls, 'extended-route-not-a-fixed-point', dict(case, route=route), e1, e3))
    except Exception as e:  # noqa
        acc.violation(Viol(cls, 'raises', case, None, f'{type(e).__name__}: {str(e)[:100]}'))
        return None
    acc.count('traces')
    return k1, e1


def variants_of(job):
    kind, dur, pit, acc_, sigs = job[:5]
    if kind == 'note':
        return variants(dur, pit, acc_, sigs)
    if kind == 'rest':
        return variants(dur, 'r', '', sigs, rest=True)
    # chord: two notes, variants of each note's own signifiers
    return [v + ' ' + w for v in variants(dur, pit, acc_, sigs[:1]) for w in variants(dur, 'e', '', sigs[1:])]


def _token_job(batch):
    """batch: list of abstract notes; their written variants are packed into documents of <= 50 rows"""
    acc = Acc()
    rows = []      # (abstract index, variant text)
    for ai, job in enumerate(batch):
        vs = variants_of(job)
        rows += [(ai, v) for v in vs]
        acc.state(job[:5])
        if len(vs) > 1:
            acc.nontriv(job[:5])
        if job[5] % 997 == 0:
            acc.sample({'abstract note': list(job[:5]), 'written variants': vs[:6], 'count': len(vs)})
    B = 50
    forms_k = [set() for _ in batch]
    forms_e = [set() for _ in batch]
    for i in range(0, len(rows), B):
        chunk = rows[i:i + B]
        two = (batch[0][5] + i // B) % 2 == 1
        if two:
            text = '**text\t**kern\n' + '\n'.join('la\t' + v for _, v in chunk) + '\n*-\t*-\n'
        else:
            text = '**kern\n' + '\n'.join(v for _, v in chunk) + '\n*-\n'
        case = {'text': text, 'abstract': [list(batch[ai][:5]) for ai in sorted(set(a for a, _ in chunk))][:6]}
        acc.count('evaluations', len(chunk))
        kind = batch[chunk[0][0]][0]
        r = fixed_point(acc, text, case, 'token-' + kind)
        if r is None:
            continue
        k1, e1 = r
        kl = [l.split('\t')[-1] for l in k1.split('\n')[1:-2]]
        el = [l.split('\t')[-1] for l in e1.split('\n')[1:-2]]
        if len(kl) != len(chunk) or len(el) != len(chunk):
            acc.violation(Viol('token-' + kind, 'row-count', case, len(chunk), len(kl)))
            continue
        for (ai, _), k, e in zip(chunk, kl, el):
            forms_k[ai].add(k)
            forms_e[ai].add(e)
    for ai, job in enumerate(batch):
        acc.outcome(tuple(sorted(forms_k[ai])))
        if len(forms_k[ai]) > 1 or len(forms_e[ai]) > 1:
            vs = variants_of(job)
            acc.violation(Viol('token-' + job[0], 'normal-form-depends-on-how-signifiers-were-written',
                               {'abstract': [list(job[:5])], 'text': '**kern\n' + '\n'.join(vs[:50]) + '\n*-\n'},
                               'one normal form', sorted(forms_k[ai])[:4] + sorted(forms_e[ai])[:4]))
    return acc


def token_jobs(tier):
    jobs = []
    quick = tier == 'quick'
    for dur, pit, ac in itertools.product(DUR, PIT[:2] if quick else PIT, ACC):
        jobs.append(('note', dur, pit, ac, (), 0))
        for s in A.SIG:
            if legal((s,), ac):
                jobs.append(('note', dur, pit, ac, (s,), 0))
    pair_durs = ['4', '8.'] if quick else ['4', '8.', '8q', '']
    pair_accs = ['', '#'] if quick else ['', '#', 'n', '--']
    combos = [('4', ''), ('8.', '#')] if quick else list(itertools.product(pair_durs, pair_accs))
    for dur, ac in combos:
        for a, b in itertools.combinations(A.SIG, 2):
            if legal((a, b), ac):
                jobs.append(('note', dur, 'c', ac, (a, b), 0))
    if not quick:
        for a, b, c in itertools.combinations(A.SIG, 3):     # triples after the pitch: order and doubling only
            if legal((a, b, c), ''):
                jobs.append(('triple', '4', 'c', '', (a, b, c), 0))
    for dur in DUR[:4] + ['']:
        for k in range(0, 3):
            for sg in itertools.combinations(REST_SIG, k):
                jobs.append(('rest', dur, 'r', '', sg, 0))
    for dur, ac in itertools.product(['4', '8.'], ['', '#']):
        for a, b in itertools.permutations(['L', 'J', ';', "'", '(', '^'], 2):
            jobs.append(('chord', dur, 'c', ac, (a, b), 0))
    return [j[:5] + (i,) for i, j in enumerate(jobs)]


def _triple_job(job):
    kind, dur, pit, ac, sigs, idx = job
    acc = Acc()
    vs = []
    for order in itertools.permutations(sigs):
        for dbl in itertools.product([1, 2], repeat=3):
            vs.append(dur + pit + ''.join(s * d for s, d in zip(order, dbl)))
    vs = sorted(set(vs))
    text = '**kern\n' + '\n'.join(vs) + '\n*-\n'
    case = {'text': text, 'abstract': ['note', dur, pit, ac, list(sigs)]}
    acc.count('evaluations', len(vs))
    acc.state(('note', dur, pit, ac, sigs))
    acc.nontriv(('note', dur, pit, ac, sigs))
    r = fixed_point(acc, text, case, 'token-note')
    if r:
        kl = set(r[0].split('\n')[1:-2])
        if len(kl) > 1:
            acc.violation(Viol('token-note', 'normal-form-depends-on-how-signifiers-were-written', case, 'one normal form', sorted(kl)[:4]))
    return acc


def _tok(batch):
    acc = Acc()
    plain = [j for j in batch if j[0] != 'triple']
    if plain:
        acc = _token_job(plain)
    for j in batch:
        if j[0] == 'triple':
            d = _triple_job(j).dump()
            for v in d['viol']:
                acc.violation(Viol(v['cls'], v['symptom'], v['case'], v['expected'], v['observed']))
            for k, c in d['n'].items():
                acc.count(k, c)
            acc.states |= d['states']
            acc.nontrivial |= d['nontrivial']
    return acc


def _doc_job(jobs):
    acc = Acc()
    for j in jobs:
        m = D.materialise(j, with_key=True)
        if m is None:
            continue
        text = m.text()
        acc.count('evaluations')
        acc.state(digest(text))
        case = {'text': text, 'headers': j[0], 'seq': j[1], 'seed': j[2]}
        r = fixed_point(acc, text, case, 'document')
        if r and r[0] != ''.join(l + '\n' for l in m.lines() if not l.startswith('!!')):
            acc.nontriv(digest(text))     # the normal form differs from the source
    return acc


FRAMES = [('**kern', '4c'), ('**text', 'la'), ('**dynam', 'p'), ('**kern\t**text', '4c\tla')]


_STRUCT = {x['src'] for x in A.KDATA + A.RDATA + A.KINT + A.KINT_KEY}


def cell_corpus(tier):
    """C18's corpus + every barline of the alphabet with the invisibility flag; without exclusive interpretations (a '**' cell below the header is not
    well-formed Humdrum) and without the two separator characters (DESIGN 2.7)"""
    import re
    from .c18 import corpus
    hidden = []
    for b in A.BARS:
        m = re.match(r'^(==?)(\d*)(.*)$', b[0])
        hidden.append(m.group(1) + m.group(2) + '-' + m.group(3))
    out, seen = [], set()
    for t in corpus(tier) + hidden:
        if t.startswith('**') or '@' in t or '·' in t or t in seen:
            continue
        seen.add(t)
        out.append(t)
    return out


def _cell_job(job):
    """every cell text of the token corpus (one per grammar alternative, barlines with every mark incl. the invisibility flag, look-alikes, all short
    strings) inside a small frame under several spine types: WHEN the frame imports without errors, the fixed-point laws must hold (differential oracle)"""
    lo, hi, tier = job
    acc = Acc()
    C = cell_corpus(tier)
    for t in C[lo:hi]:
        for fi, (hdr, filler) in enumerate(FRAMES):
            if hdr.startswith('**kern') and not (t in _STRUCT or t.startswith(('*', '=', '!'))):
                continue            # in a **kern column only tokens of the structured alphabets: a glued string like 'rck' is accepted by the grammar
                #                     but is no note, rest or chord of the property's domain
            ncol = hdr.count('\t') + 1
            row = t if ncol == 1 else t + '\t' + ('.' if not t.startswith(('*', '=', '!')) else t if t.startswith('=') else t[0])
            text = f'{hdr}\n' + '\t'.join(['*clefG2'] + ['*'] * (ncol - 1)) + f'\n{filler}\n{row}\n{filler}\n' + '\t'.join(['*-'] * ncol) + '\n'
            acc.count('evaluations')
            try:
                d, e = kp.loads(text)
            except Exception:
                continue            # not a document of the domain (the cell changes the spine structure)
            if e:
                continue            # "imports without errors" is the property's premise
            acc.state(('cell', t, fi))
            r = fixed_point(acc, text, {'text': text, 'cell': t, 'frame': hdr, 'cls': 'cell-corpus'}, 'cell-corpus')
            if r and t not in r[0].split('\n')[3:4]:
                acc.nontriv(('cell', t, fi))      # the normal form of the cell differs from how it was written
    return acc


APART = 'staff-change-mark-written-apart-from-the-slur-tie-or-beam-it-combines-with'


def check_apart(acc):
    """'<' and '>' combine with a slur, tie or beam mark written directly before them (one grammar unit, DESIGN 2.7).  Written APART from it they are two
    signifiers; the fixed-point laws still apply to such a note (it imports without errors)."""
    for b in ['(', '[', '_', ']', '<', '>', 'L', 'J', 'K', 'k', '&(', ')']:
        for mk in ['<', '>']:
            if b == mk:
                continue
            for t in (mk + '4c' + b, b + '4c' + mk, '4c' + b + mk, '4c' + mk + b, mk + b + '4c', '4c' + mk + ';' + b):
                text = f'**kern\n*clefG2\n4d\n{t}\n4e\n*-\n'
                acc.count('evaluations')
                try:
                    d, e = kp.loads(text)
                except Exception:
                    continue
                if e:
                    continue
                acc.state(('apart', t))
                acc.nontriv(('apart', t))
                fixed_point(acc, text, {'text': text, 'cell': t, 'cls': APART}, APART)


def _same_text_job(_seed):
    """canonicity where the SAME text occurs first as free text and later as a kern note in the same column (and the other way round): the note's normal form must be
    the one it has in a document of its own; the documents must also be fixed points"""
    from .c03 import same_text_models
    acc = Acc()
    normal = {}
    for m in same_text_models():
        text = m.text()
        case = {'text': text, 'headers': m.headers, 'seq': ['same-text'], 'seed': 0}
        acc.count('evaluations')
        acc.state(digest(text))
        acc.nontriv(digest(text))
        r = fixed_point(acc, text, case, 'document')
        try:
            doc, _ = kp.loads(text)
            k1 = kp.dumps(doc, spine_types=m.headers).split('\n')
            e1 = kp.dumps(doc, spine_types=m.headers, encoding=kp.Encoding.eKern).split('\n')
        except Exception as e:  # noqa
            acc.violation(Viol('document', 'raises', case, None, f'{type(e).__name__}: {str(e)[:80]}'))
            continue
        for ri, (kind, row) in enumerate(m.rows):
            for c in (row if kind == 'c' else ()):
                if c.spec['k'] != 'n':
                    continue
                src = c.src
                if src not in normal:
                    d1, _ = kp.loads(f'**kern\n{src}\n*-\n')
                    normal[src] = (kp.dumps(d1).split('\n')[1], kp.dumps(d1, encoding=kp.Encoding.eKern).split('\n')[1])
                got = (k1[ri].split('\t')[c.col], e1[ri].split('\t')[c.col])
                acc.count('transitions')
                if got != normal[src]:
                    acc.violation(Viol('document', 'normal-form-of-a-note-depends-on-where-its-text-occurred-before', dict(case, note=src), normal[src], got))
    return acc


def run(ctx):
    quick = ctx.quick
    ctx.rule = ('(a) every abstract note x every written variant of its signifier set (order, slot, doubling); (b) all row sequences up to the depth bound and all <=k '
                'deviations of a backbone; non-trivial = abstract note with more than one written variant / document whose normal form differs from its source')
    ctx.bounds = {'durations': DUR, 'pitches': PIT[:2] if quick else PIT, 'accidentals': ACC, 'signifiers': len(A.SIG), 'signifier_set_size': '<=2 (3 after the pitch, thorough)',
                  'doc_path_depth': 3 if quick else 4, 'doc_deviations_k': 2}
    ctx.assumptions = ['differential oracle (no reference model): import(export(import(T))) and both extended routes',
                       'canonicity claimed for the 37 single-character signifiers of DESIGN §2.7 with the two generation rules stated there']
    ctx.pmap(_tok, list(X.chunks(token_jobs(ctx.tier), 8)), chunksize=2)
    hdrs = A.HDR_QUICK if quick else A.hdr_thorough()[:20]
    jobs = list(D.path_docs(hdrs, 3 if quick else 4, (ctx.seed,)))
    if quick:
        jobs = list(D.path_docs(hdrs[:5], 3, (ctx.seed,))) + list(D.path_docs(hdrs[5:], 2, (ctx.seed,)))
        jobs += list(D.deviation_docs([['**kern', '**text']], 2, (ctx.seed + 3,), menu=['d', 'i', 'z', 'S0', 'J0', 'g', 'b']))
        jobs += list(D.deviation_docs([['**kern'], ['**text', '**kern', '**kern']], 1, (ctx.seed + 3,)))
    else:
        jobs += list(D.deviation_docs(hdrs[:6], 2, (ctx.seed + 3,)))
    check_apart(ctx)
    nc = len(cell_corpus(ctx.tier))
    ctx.bounds['cell_corpus'] = {'cells': nc, 'frames': [f[0] for f in FRAMES]}
    ctx.pmap(_cell_job, [(lo, lo + 100, ctx.tier) for lo in range(0, nc, 100)], chunksize=1)
    ctx.pmap(_same_text_job, [0], chunksize=1)
    ctx.pmap(_doc_job, [[j] for j in D.long_docs(ctx.seed) + D.huge_docs(ctx.seed + 2) + D.giant_jobs(ctx.seed) + D.aligned_jobs(ctx.seed) + [(['**kern'], ['DISTINCT'], ctx.seed)]] + list(X.chunks(jobs, 150)), chunksize=1)


def replay(case):
    acc = Acc()
    if case.get('seq') == ['same-text']:
        return _same_text_job(0).viol
    if 'abstract' in case and 'seq' not in case:
        batch = []
        for kind, dur, pit, ac, sigs in case['abstract']:
            batch.append((kind if kind != 'note' or len(sigs) < 3 else 'triple', dur, pit, ac, tuple(sigs), 1 if case['text'].startswith('**text') else 0))
        d = _tok(batch)
        if not d.viol:      # the recorded document itself (batch packing may differ)
            fixed_point(d, case['text'], case, 'token-' + batch[0][0].replace('triple', 'note'))
        return d.viol
    fixed_point(acc, case['text'], case, case.get('cls', 'document'))
    return acc.viol
