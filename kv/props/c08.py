"""C08 - A measure excerpt is a self-contained, equivalent score.
Space: row sequences over {data, barline, null interpretation, clef/key/time rows on ALL kern columns, clef/time rows on the FIRST column only, split,
join} for 1-2 kern spines (and kern+text exported with spine_types=['**kern']) x every measure range.
Every case (document, a, b) is labelled by the MODEL's state at the excerpt's first row and by the shape of the signature rows (DESIGN §3 C08):
  core | starts-inside-open-split | starts-at-interpretation-row | partial-signature-row | non-kern-spine-in-excerpt
Oracle: the excerpt is accepted by the SpineModel used as an acceptor, re-imports without errors, and its (note, clef/key/time in force) sequence
is a contiguous block of the full score's.  Violations in 'core' are VIOLATIONs; the other classes are tracked symptom by symptom."""
import kernpy as kp

from .. import explore as X
from ..core import Acc, Viol, digest


def kind(c):
    if c.startswith('**'):
        return 'hdr'
    if c in ('*^', '*v', '*-', '*+', '*x'):
        return 'op'
    if c.startswith('*clef'):
        return 'clef'
    if c.startswith('*k['):
        return 'key'
    if c.startswith('*M') and not c.startswith('*MM') and '(' not in c:
        return 'time'
    if c.startswith('*'):
        return 'interp'
    if c.startswith('='):
        return 'bar'
    if c.startswith('!'):
        return 'com'
    return 'data'


def contexts(rows):
    """SpineModel as acceptor + context model on plain text rows.  Returns [(data cell, (clef, key, time))] or raises ValueError(symptom)."""
    if not rows or not all(c.startswith('**') for c in rows[0]):
        raise ValueError('no-header-line-first')
    live = [{'clef': None, 'key': None, 'time': None, 'spine': i} for i in range(len(rows[0]))]
    out = []
    for r in rows[1:]:
        if not live:
            raise ValueError('row-after-all-spines-terminated')
        if len(r) != len(live):
            raise ValueError(f'cell-count-{len(r)}-for-{len(live)}-spine-paths')
        nl = []
        i = 0
        while i < len(r):
            c = r[i]
            k = kind(c)
            ctx = live[i]
            if k == 'hdr':
                raise ValueError('second-header-line')
            if c == '*^':
                nl += [dict(ctx), dict(ctx)]
            elif c == '*-':
                pass
            elif c == '*v':
                j = i + 1
                while j < len(r) and r[j] == '*v' and live[j]['spine'] == ctx['spine']:
                    j += 1
                if j == i + 1:
                    raise ValueError('join-of-a-single-path')
                nl.append(dict(ctx))
                i = j
                continue
            else:
                ctx = dict(ctx)
                if k in ('clef', 'key', 'time'):
                    ctx[k] = c
                if k == 'data' and c != '.':
                    out.append((c, (ctx['clef'], ctx['key'], ctx['time'])))
                nl.append(ctx)
            i += 1
        live = nl
    if live:
        raise ValueError('spine-not-terminated')
    return out


def model_measures(rows):
    """row indexes (into rows) at which measures start: first barline or CORE-category row (data, '.' or '*' cell), then every barline row"""
    starts = []
    for i, r in enumerate(rows):
        if i == 0:
            continue
        ks = [kind(c) for c in r]
        if 'bar' in ks:
            starts.append(i)
        elif not starts and (any(k == 'data' for k in ks) or any(c == '*' for c in r)):
            starts.append(i)
    return starts


def classify(rows, ns, start_row, end_row, kern_cols_of_row, has_nonkern, spines_at_start=None):
    cls = []
    if has_nonkern:
        cls.append('non-kern-spine-in-excerpt')
    r = rows[start_row]
    # a split is open at the first row of the excerpt if some *^ above it has not been re-joined (terminating one of its branches does not
    # re-join it; a whole spine terminated earlier is not a split)
    splits = sum(1 for row in rows[1:start_row] for c in row if c == '*^')
    merged = 0
    for ri, row in enumerate(rows[1:start_row], start=1):
        sp = spines_at_start[ri] if spines_at_start is not None else [0] * len(row)
        i = 0
        while i < len(row):
            if row[i] == '*v':
                j = i
                while j + 1 < len(row) and row[j + 1] == '*v' and sp[j + 1] == sp[i]:
                    j += 1
                merged += j - i
                i = j + 1
            else:
                i += 1
    open_split = splits - merged > 0
    if open_split:
        cls.append('starts-inside-open-split')
    if any(kind(c) not in ('bar', 'data') for c in r):
        cls.append('starts-at-interpretation-row')
    for i in range(1, min(end_row, len(rows))):
        kc = kern_cols_of_row[i]
        ks = {kind(rows[i][j]) for j in kc}
        if ks & {'clef', 'key', 'time'} and len(ks) > 1:
            cls.append('partial-signature-row')
            break
    return cls[0] if cls else 'core'      # one label per case, by priority (keeps the list of tracked (class, symptom) pairs small)


def symptom_of_exception(e):
    s = str(e)
    if s.startswith('Node signature mismatch'):
        return 'export-raises-node-signature-mismatch'
    return 'export-raises-' + type(e).__name__


def check(acc, job):
    headers, seq, seed = job[:3]
    blank_at = job[3] if len(job) > 3 else None
    from .. import docspace as D
    m = D.materialise((headers, seq, seed), cap=4)
    if m is None:
        return
    text = m.text()
    if blank_at is not None:
        # the same score with a blank line in it: stages and excerpts must not change (blank lines are not rows)
        ls = text.split('\n')
        ls.insert(min(blank_at, len(ls) - 1), '')
        text = '\n'.join(ls)
    rows = [[c.src for c in r] for r in m.crows()]
    spine_rows = [[c.spine for c in r] for r in m.crows()]
    kern_cols = [[j for j, sp in enumerate(sr) if headers[sp] == '**kern'] for sr in spine_rows]
    has_nonkern = any(h != '**kern' for h in headers)
    kw = {'spine_types': ['**kern']} if has_nonkern else {}
    case0 = {'text': text, 'headers': headers, 'seq': seq, 'seed': seed, 'blank_at': blank_at}
    acc.state(digest(text))
    try:
        doc, errs = kp.loads(text)
        M = doc.measures_count()
    except Exception:
        return          # no measures: nothing to excerpt (C07 decides the measure count)
    starts = model_measures(rows)
    acc.count('transitions')
    ms = [s - 1 for s in getattr(doc, 'measure_start_tree_stages', [])]
    if ms != starts:
        acc.count('measure_index_from_kernpy')      # classification falls back on kernpy's own index (C07 checks the index itself)
        starts = ms
    if len(starts) != M:
        return
    # the full (normalised) export of the kern spines, through the same acceptor: the reference for notes and their signatures
    kern_rows = [[r[j] for j in kc] for r, kc in zip(rows, kern_cols)]
    try:
        fulltext = kp.dumps(doc, **kw)
        fullctx = contexts([x.split('\t') for x in fulltext.split('\n') if x])
    except Exception:
        return      # C03 decides the full export
    nk = sum(1 for h in headers if h == '**kern')
    pairs = [(a, b) for a in range(1, M + 1) for b in range(a, M + 1)]
    if M > 80:      # a very long score: ranges over the boundary values only (powers of two and of ten, both ends, the whole score)
        marks = sorted(x for x in {1, 2, 9, 10, 11, 63, 64, 65, 66, 99, 100, 101, 127, 128, 129, 130, 255, 256, 257, 258, 300, M - 40, M - 2, M - 1, M} if 1 <= x <= M)
        pairs = [(a, a) for a in marks] + [(a, b) for a in marks for b in marks if a < b and (b - a <= 3 or a == 1 or b == M)]
    for a, b in pairs:
        if True:
            end_row = starts[b] if b < M else len(rows)
            cl = classify(rows, len(headers), starts[a - 1], end_row, kern_cols, has_nonkern, spine_rows)
            case = dict(case0, from_measure=a, to_measure=b, M=M, cls=cl)
            acc.count('evaluations')
            acc.count('transitions')
            acc.count('class:' + cl)
            if cl == 'core':
                acc.nontriv((digest(text), a, b))
            try:
                o = kp.dumps(doc, from_measure=a, to_measure=b, **kw)
            except Exception as e:  # noqa
                acc.violation(Viol(cl, symptom_of_exception(e), case, 'an excerpt', str(e)[:100]))
                continue
            erows = [x.split('\t') for x in o.split('\n') if x]
            acc.outcome(digest(o))
            try:
                ectx = contexts(erows)
            except ValueError as e:
                sym = str(e)
                sym = 'cell-count-inconsistent-with-spine-operators' if sym.startswith('cell-count') else sym
                acc.violation(Viol(cl, 'malformed-' + sym, case, 'well-formed Humdrum', o[:300]))
                continue
            try:
                d2, e2 = kp.loads(o)
                acc.count('transitions')
                if e2:
                    acc.violation(Viol(cl, 'reimports-with-errors', case, 'no errors', [x.encoding for x in e2][:3]))
                    continue
            except Exception as e:  # noqa
                acc.violation(Viol(cl, 'reimport-raises', case, 'document', f'{type(e).__name__}: {str(e)[:80]}'))
                continue
            acc.count('traces')
            mlen = len(ectx)
            ok = any(fullctx[i:i + mlen] == ectx for i in range(len(fullctx) - mlen + 1))
            if not ok:
                okd = any([x[0] for x in fullctx[i:i + mlen]] == [x[0] for x in ectx] for i in range(len(fullctx) - mlen + 1))
                acc.violation(Viol(cl, 'notes-governed-by-other-signatures' if okd else 'notes-differ-from-the-full-score', case,
                                   'same notes under the same clef/key/time', [x for x in ectx][:4]))


def _job(jobs):
    acc = Acc()
    for j in jobs:
        check(acc, j)
    if jobs:
        from .. import docspace as D
        m = D.materialise(jobs[len(jobs) // 2][:3], cap=4)
        if m is not None:
            acc.sample({'text': m.text(), 'ranges': 'every 1<=a<=b<=M, each labelled by the model state at its first row'}, cap=1)
    return acc


def run(ctx):
    quick = ctx.quick
    seed = ctx.seed
    A1 = ['d', 'b', 'k', 'K', 'T', 'S0', 'J0', 'n']          # uniform signature rows: the claimed core lives here
    A2 = ['d', 'b', 'k', 'C', 'M', 'S0', 'J0']                # + partial signature rows
    A3 = ['d', 'b', 'k', 'D', 'N', 'S0']                       # + signatures on the LAST column only (the spine lacking one is on the left)
    A4 = ['d', 'b', 'k', 'X1', 'X0', 'S0']                      # + a spine terminated early while the other goes on
    cfg = [(['**kern'], A1, 6), (['**kern', '**kern'], A1, 5), (['**kern', '**kern'], A2, 5), (['**kern', '**kern'], A3, 5), (['**kern', '**kern'], A4, 5), (['**kern', '**text'], A1, 4)]
    if not quick:
        cfg += [(['**kern'], A1 + ['C', 'z', 'c'], 6), (['**kern', '**kern', '**kern'], ['d', 'b', 'k', 'T', 'S0', 'J0'], 5),
                (['**text', '**kern', '**kern'], ['d', 'b', 'k', 'S1', 'J1'], 5)]
    ctx.rule = ('every row sequence up to the length bound with >= 2 barlines x every measure range, labelled by class; non-trivial = excerpt in the claimed core')
    ctx.bounds = {'configurations': [{'headers': h, 'alphabet': a, 'length': l} for h, a, l in cfg], 'column_cap': 4}
    ctx.assumptions = ['the acceptor and the context model work on plain text (they never call kernpy)',
                       'class predicate of DESIGN §3 C08; failures outside core are known findings only if their (class, symptom) is listed']
    jobs = []
    for h, alpha, L in cfg:
        for seq in X.all_seqs(alpha, L, 2):
            if seq.count('b') < 2:
                continue
            jobs.append((h, list(seq), seed))
    # blank-line variants of the documents that contain a join (every third one): line numbers and stage numbers then differ
    extra = []
    for k, j in enumerate(jobs):
        if 'J0' in j[1] and k % 3 == 0:
            extra.append((j[0], j[1], j[2], 1 + (k // 3) % 3))
    jobs += extra
    from .. import docspace as D
    ctx.pmap(_job, [[j] for j in D.long_kern_docs(seed, reps=(3, 6)) + [(['**kern', '**kern'], ['GIANT', '1500', 'nocomments'], seed), (['**kern'], ['GIANT', '1200', 'nocomments'], seed + 1), (['**kern', '**kern'], ['SIGNATURES'], seed)]] + list(X.chunks(jobs, 120)), chunksize=1)
    ctx.extra['cases_per_class'] = {k[6:]: v for k, v in ctx.n.items() if k.startswith('class:')}


def replay(case):
    acc = Acc()
    check(acc, (case['headers'], case['seq'], case['seed'], case.get('blank_at')))
    return [v for v in acc.viol if v['case'].get('from_measure') == case.get('from_measure') and v['case'].get('to_measure') == case.get('to_measure')]
