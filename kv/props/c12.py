"""C12 - Malformed tokens are isolated, reported once and preserved.
(a) explicit-state BFS on ONE live spine importer of each type: alphabet = valid tokens + malformed tokens; a state is the reflection fingerprint of the
    importer; explored to closure of the fingerprint graph (and at least to the depth bound): the outcome for a token never depends on the history.
(b) document level: skeleton documents x every placement of 1 malformed cell x every malformed text, every pair of placements, (thorough) triples;
    a blank line before the damage.  Oracle: the reference model of the damaged document + the undamaged twin."""
import itertools
import re

import kernpy as kp

from .. import alphabet as A
from .. import explore as X
from .. import snapshot as SN
from ..core import Acc, Viol, digest
from ..model import compare_export

VALID = ['4c', '4c 4e-', '8.r', '=1', '*clefG2', '.', '*MM120', '2..CC#L;', '*', '*k[f#]', '=:|!', "16ddkk'"]
BAD_CLASS = {b: cls for cls, bs in A.BAD.items() for b in bs}
BADS = list(BAD_CLASS)
CLASS_NAME = {'unknown-character': 'not-a-token-at-all', 'wrong-order': 'not-a-token-at-all', 'truncated': 'not-a-token-at-all',
              'trailing': 'trailing-characters-after-valid-token'}
TRAIL = [b for b in BADS if BAD_CLASS[b] == 'trailing']
NONTRAIL = [b for b in BADS if BAD_CLASS[b] != 'trailing']
IMPORTERS = ['**kern', '**root', '**text', '**dynam', '**harm', '**mxhm', '**fing', '**zzz']


def outcome(imp, t):
    try:
        tok = imp.import_token(t)
        return ('ok', tok.category.name, tok.export(), type(tok).__name__)
    except Exception as e:  # noqa
        return ('raises',)


def history_bfs(acc, header, depth):
    """phase 1: every history up to `depth` tokens on one live importer, unmerged; phase 2: closure of the importer-fingerprint graph"""
    alphabet = VALID + BADS
    fresh = {t: outcome(kp.createImporter(header), t) for t in alphabet}
    cls = 'importer-history-' + ('kern' if header in ('**kern', '**root') else 'other')

    def step_check(imp, h, t):
        r = outcome(imp, t)
        acc.count('transitions')
        acc.count('evaluations')
        if h:
            acc.nontriv((header, tuple(h), t))
        acc.outcome((t, r))
        if r != fresh[t]:
            acc.violation(Viol(cls, 'outcome-depends-on-tokens-parsed-before', {'importer': header, 'history': list(h) + [t]}, fresh[t], r))

    fps = {}

    def rec(h):
        # one live importer per path prefix: replay the prefix, then try every next token on a replayed copy
        for t in alphabet:
            imp = kp.createImporter(header)
            for x in h:
                outcome(imp, x)
            step_check(imp, h, t)
            fp = SN.digest([imp])
            fps.setdefault(fp, list(h) + [t])
            if len(h) + 1 < depth:
                rec(h + [t])
        acc.count('traces')
    fps[SN.digest([kp.createImporter(header)])] = []
    rec([])
    # phase 2: from every distinct fingerprint reached, every token again, until no new fingerprint appears
    frontier = [h for h in fps.values() if len(h) == depth]
    seen = set(fps)
    level = 0
    expanded = 0
    while frontier and level < 12 and expanded < 400 and not acc.nviol:
        nxt = []
        for h in frontier:
            expanded += 1
            if expanded > 400:
                break
            for t in alphabet:
                imp = kp.createImporter(header)
                for x in h:
                    outcome(imp, x)
                step_check(imp, h, t)
                fp = SN.digest([imp])
                if fp not in seen:
                    seen.add(fp)
                    nxt.append(h + [t])
        frontier = nxt
        level += 1
    for fp in seen:
        acc.state((header, fp))
    acc.count('importer_fingerprints', len(seen))
    if frontier and not acc.nviol:
        acc.caps.append(f'{header}: importer fingerprint graph not closed (12 levels / 400 expansions beyond the depth bound)')
    return fresh


def _hist_job(job):
    header, depth = job
    acc = Acc()
    fresh = history_bfs(acc, header, depth)
    if header in ('**kern', '**root'):
        for t in VALID:
            if fresh[t][0] != 'ok':
                acc.violation(Viol('token', 'valid-token-rejected', {'importer': header, 'token': t}, 'accepted', fresh[t]))
        for t in BADS:
            if fresh[t][0] == 'ok':
                cls = CLASS_NAME[BAD_CLASS[t]]
                sym = 'no-error-reported-and-cell-shortened' if fresh[t][2] != t else 'no-error-reported'
                acc.violation(Viol(cls, sym, {'importer': header, 'token': t}, 'rejected', fresh[t]))
    acc.sample({'importer': header, 'history': ['4c', '4c€', '4c'], 'expect': 'third outcome == outcome on a fresh importer'}, cap=1)
    return acc


# ---------------------------------------------------------------------------------------------------
SKELETONS = [(['**kern', '**text', '**kern'], ['k', 'b', 'd', 'd', 'S0', 'd', 'J0', 'b', 'd', 'b']),
             (['**kern'], ['k', 'b', 'd', 'g', 'd', 'b', 'g', 'd']),
             (['**root', '**dynam', '**kern'], ['k', 'b', 'd', 'c', 'd', 'b']),
             (['**harm', '**kern', '**mxhm'], ['i', 'b', 'd', 'S1', 'd', 'J1', 'b']),
             (['**kern', '**kern', '**text', '**kern'], ['GIANT']),               # ~1 900 lines, > 4 700 kern cells (mass mode only)
             (['**kern', '**kern', '**text', '**kern'], ['GIANT', '3400'])]       # > 10 000 kern cells (thorough tier)


PRE = {1: ('!!!COM: Bach', '!!plain'), 3: ('!!!OTL: t',)}


def skel_model(headers, seq, seed, pre=()):
    from .. import docspace as D
    return D.materialise((headers, seq, seed), cap=6, pre=pre)


def positions(m):
    return [(c.row, c.col) for c in m.cells() if c.row > m.header_row and c.src not in ('*^', '*v', '*-')]


def damaged(headers, seq, seed, places, blank_before=None, pre=()):
    """model of the damaged document: the cells at `places` replaced by malformed texts"""
    m = skel_model(headers, seq, seed, pre)
    repl = dict(places)
    exp_err = []
    for c in m.cells():
        if (c.row, c.col) in repl:
            bad = repl[(c.row, c.col)]
            typ = headers[c.spine]
            if typ in A.KERN_LIKE:
                c.spec = A.V(bad, 'ERROR')
                exp_err.append((c.row, bad))
            else:
                c.spec = A.V(bad, A.OWN_CAT[typ])
    return m, exp_err


def check_places(acc, sk, seed, places, blank_before=None):
    headers, seq = SKELETONS[sk]
    m0 = skel_model(headers, seq, seed, PRE.get(sk, ()))
    m, exp_err = damaged(headers, seq, seed, places, pre=PRE.get(sk, ()))
    lines = m.lines()
    shift = {}
    if blank_before is not None:
        lines.insert(blank_before, '')
    text = '\n'.join(lines) + '\n'
    classes = sorted({CLASS_NAME[BAD_CLASS[b]] for _, b in places})
    kern_hit = any(headers[c.spine] in A.KERN_LIKE for c in m.cells() if (c.row, c.col) in dict(places))
    cls = classes[0] if len(classes) == 1 else 'mixed'
    if not kern_hit:
        cls += '-in-non-kern-spine'
    case = {'text': text, 'skeleton': sk, 'seed': seed, 'places': [[list(p), b] for p, b in places], 'blank_before': blank_before}
    acc.count('evaluations')
    acc.count('transitions')
    acc.state(digest(text))
    if len(places) > 1 or blank_before is not None:
        acc.nontriv(digest(text))
    try:
        doc, errs = kp.loads(text)
    except Exception as e:  # noqa
        acc.violation(Viol(cls, 'import-raises', case, 'a document and an error list', f'{type(e).__name__}: {str(e)[:80]}'))
        return
    acc.count('traces')
    # one error per malformed kern cell, with its 1-based physical line number and text
    exp = sorted((r + 1 + (1 if blank_before is not None and blank_before <= r else 0), b) for r, b in exp_err)
    got = sorted((getattr(e, 'line', None), e.encoding) for e in errs)
    acc.outcome((len(got), cls))
    if [g[1] for g in got] != [e[1] for e in exp]:
        if len(got) < len(exp):
            sym = 'no-error-reported-and-cell-shortened' if 'trailing' in cls else 'error-not-reported'
        else:
            sym = 'errors-reported-for-cells-that-are-not-malformed'
        acc.violation(Viol(cls, sym, case, exp, got))
    elif got != exp:
        acc.violation(Viol(cls if blank_before is None else 'blank-line-before-the-damage', 'wrong-line-number', case, exp, got))
    elif len(places) > 1 or acc.n['evaluations'] % 4 == 0:
        # the same report through the raising mode: it raises exactly when there is an error and its message names every malformed cell and line
        try:
            kp.loads(text, raise_on_errors=True)
            raised = None
        except Exception as e:  # noqa
            raised = str(e)
        acc.count('transitions')
        if (raised is None) != (not exp):
            acc.violation(Viol(cls, 'raising-mode-disagrees-with-the-error-list', dict(case, raise_on_errors=True), 'raises' if exp else 'no exception', raised and raised[:200]))
        elif raised is not None:
            missing = [(ln, b) for ln, b in exp if b not in raised or not re.search(r'(?<!\d)%d(?!\d)' % ln, raised)]
            if missing:
                acc.violation(Viol(cls, 'raising-mode-omits-a-malformed-cell-or-its-line', dict(case, raise_on_errors=True), exp, raised[:300]))
    # every other token exactly as without the damage + malformed cells verbatim in place: reference model of the damaged document
    try:
        toks = [(t.encoding, t.category.name, t.export()) for t in doc.get_all_tokens()]
        expt = m.dfs_order()
        bad_here = [i for i, (e, c) in enumerate(expt) if (e, c) not in ()]
        if [t[0] for t in toks] != [e[0] for e in expt]:
            shortened = any(t[0] != e[0] and e[0].startswith(t[0]) for t, e in zip(toks, expt))
            acc.violation(Viol(cls, 'no-error-reported-and-cell-shortened' if (shortened and 'trailing' in cls) else 'token-listing-differs', case,
                               [e[0] for e in expt], [t[0] for t in toks]))
        else:
            wrongcat = [(t, e) for t, e in zip(toks, expt) if e[1] is not None and t[1] != e[1]]
            if wrongcat:
                acc.violation(Viol(cls, 'category-of-a-token-differs', case, wrongcat[0][1], wrongcat[0][0]))
        out = kp.dumps(doc)
        acc.count('transitions')
        probs = compare_export(m, out, 'kern')
        for sym, detail in probs[:1]:
            s2 = 'no-error-reported-and-cell-shortened' if ('trailing' in cls and sym in ('verbatim', 'not-null')) else 'export-' + sym
            acc.violation(Viol(cls, s2, case, 'undamaged export with the malformed cells verbatim in place', detail))
        # undamaged twin: tokens at all other positions identical
        d0, e0 = kp.loads(m0.text())
        t0 = [(t.encoding, t.category.name, t.export()) for t in d0.get_all_tokens()]
        if len(t0) == len(toks):
            dirty = {e[0] for e in [(b, None) for _, b in places]}
            diff = [(a, b) for a, b in zip(toks, t0) if a != b and a[0] not in dirty and not any(bd.startswith(a[0]) and a[0] for bd in dirty)]
            if diff:
                acc.violation(Viol(cls, 'another-token-changed-by-the-damage', case, diff[0][1], diff[0][0]))
    except Exception as e:  # noqa
        acc.violation(Viol(cls, 'query-or-export-raises', case, None, f'{type(e).__name__}: {str(e)[:80]}'))


def _doc_job(job):
    sk, seed, mode, lo, hi = job
    acc = Acc()
    headers, seq = SKELETONS[sk]
    m0 = skel_model(headers, seq, seed, PRE.get(sk, ()))
    pos = positions(m0)
    if mode == 'single':
        for bi in range(lo, hi):
            b = BADS[bi]
            for p in pos:
                check_places(acc, sk, seed, [(p, b)])
    elif mode == 'pairs':
        pairs = list(itertools.combinations(pos, 2))[lo:hi]
        for k, (p, q) in enumerate(pairs):
            grp = TRAIL if (k + lo) % 3 == 2 else NONTRAIL     # both cells from the same class, so that a case has one class
            same = (k + lo) % 4 == 1      # the same malformed text in two cells
            check_places(acc, sk, seed, [(p, grp[(k + lo) % len(grp)]), (q, grp[(k + lo + (0 if same else 5)) % len(grp)])])
    elif mode == 'triples':
        triples = list(itertools.combinations(pos, 3))[lo:hi]
        for k, ps in enumerate(triples):
            grp = TRAIL if (k + lo) % 3 == 2 else NONTRAIL
            check_places(acc, sk, seed, [(p, grp[(k + lo + 3 * i) % len(grp)]) for i, p in enumerate(ps)])
    elif mode == 'mass':
        # a very large document: one malformed cell at the very end; 40 times the SAME malformed text; 300 malformed cells (more than 256 errors in one import)
        kpos = [p for p in pos if m0.rows[p[0]][1][p[1]].spec['k'] == 'n']
        if lo == 0:
            check_places(acc, sk, seed, [(kpos[-1], 'c4')])
            check_places(acc, sk, seed, [(kpos[-2], '4c€'), (kpos[3], '#4c')])
        elif lo == 1:
            check_places(acc, sk, seed, [(p, 'c4') for p in kpos[5::len(kpos) // 40][:40]])
        else:
            check_places(acc, sk, seed, [(p, NONTRAIL[i % len(NONTRAIL)]) for i, p in enumerate(kpos[7::len(kpos) // 300][:300])] + [(kpos[-1], 'c4')])
    elif mode == 'blank':
        for k, p in enumerate(pos):
            for bb in (1, 2, p[0]):
                if bb <= p[0]:
                    check_places(acc, sk, seed, [(p, ['c4', '4c€', '*clef', '#4c'][k % 4])], blank_before=bb)
    if lo == 0:
        acc.sample({'skeleton': m0.text(), 'mode': mode, 'malformed texts': BADS}, cap=1)
    return acc


def run(ctx):
    quick = ctx.quick
    seed = ctx.seed
    depth = 2 if quick else 3
    ctx.rule = ('(a) token histories on one live importer per spine type: every history up to the depth bound unmerged, then closure over importer fingerprints; '
                '(b) skeleton documents x every placement x every malformed text, all pairs (and triples) of placements, blank line before the damage; '
                'non-trivial = history of length >= 2 / >= 2 damaged cells or a blank line')
    ctx.bounds = {'importer_history_depth_unmerged': depth, 'importer_alphabet': len(VALID) + len(BADS), 'skeletons': len(SKELETONS), 'malformed_texts': len(BADS),
                  'placements': '1 and 2 (quick), 3 on the small skeleton (thorough)'}
    ctx.assumptions = ['malformed = rejected by the kern grammar; in lyrics/dynamics/harmony/fingering spines nothing is malformed (C18)',
                       'line numbers are 1-based physical line numbers (blank lines count)']
    ctx.pmap(_hist_job, [(h, depth) for h in IMPORTERS], chunksize=1)
    jobs = []
    jobs += [(4, seed, 'mass', k, 0) for k in range(3)] + ([] if quick else [(5, seed, 'mass', 0, 0)])
    for sk in range(4):
        m0 = skel_model(*SKELETONS[sk], seed, PRE.get(sk, ()))
        npos = len(positions(m0))
        for bi in range(0, len(BADS), 3):
            jobs.append((sk, seed, 'single', bi, min(bi + 3, len(BADS))))
        np2 = npos * (npos - 1) // 2
        if sk < (2 if quick else 4):
            for lo in range(0, np2, 60):
                jobs.append((sk, seed, 'pairs', lo, min(lo + 60, np2)))
        jobs.append((sk, seed, 'blank', 0, 0))
        if not quick and sk == 1:
            np3 = npos * (npos - 1) * (npos - 2) // 6
            for lo in range(0, np3, 80):
                jobs.append((sk, seed, 'triples', lo, min(lo + 80, np3)))
    ctx.pmap(_doc_job, jobs, chunksize=1)


def replay(case):
    acc = Acc()
    if 'importer' in case:
        d = _hist_job((case['importer'], max(1, len(case.get('history', [])) if 'history' in case else 1)))
        return d.viol
    places = [((p[0], p[1]), b) for p, b in case['places']]
    check_places(acc, case['skeleton'], case['seed'], places, case.get('blank_before'))
    return acc.viol
