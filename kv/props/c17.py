"""C17 - Token queries agree with the tree and with each other.
Space: every enabled row sequence up to a depth over {data, interpretation, field comment, barline, global comment, every split / join /
single termination}, with and without global comments before the header, x category filters (none, 37 singles, all pairs of top-level
categories, complements).  Oracle: the model's depth-first order with the documented category of every cell."""
import itertools
from collections import Counter

import kernpy as kp

from .. import alphabet as A
from .. import catref
from .. import explore as X
from ..core import Acc, Viol, digest, h64
from ..model import Model

TC = kp.TokenCategory
SINGLES = [(n,) for n in catref.NAMES]
PAIRS = list(itertools.combinations(catref.TOP, 2))
COMPL = [tuple(x for x in catref.TOP if x != t) for t in catref.TOP]
MIXED = [('NOTE_REST', 'BARLINES', 'HEADER'), ('DURATION', 'PITCH'), ('CORE', 'SIGNATURES', 'STRUCTURAL', 'BARLINES'), ('COMMENTS', 'EMPTY'),
         ('LYRICS', 'DYNAMICS', 'HARMONY', 'FINGERING'), ('CHORD', 'REST'), ('SPINE_OPERATION', 'EMPTY', 'FIELD_COMMENTS')]
ROT = PAIRS + COMPL + MIXED


def listing(tokens):
    return [(t.encoding, t.category.name) for t in tokens]


def check_doc(acc, headers, hist, pre=(), all_filters=False, mono=True, only_filters=None):
    m = X.build(headers, hist, pre, close=True)
    text = m.text()
    case = {'text': text, 'headers': headers, 'pre': list(pre), 'hist': hist}
    acc.count('evaluations')
    acc.state(digest(text))
    try:
        doc, errs = kp.loads(text)
    except Exception as e:  # noqa
        acc.violation(Viol('well-formed', 'import-raises', case, None, f'{type(e).__name__}: {str(e)[:100]}'))
        return
    exp = m.dfs_order()
    gl = [r for k, r in m.rows if k == 'g']
    if any(c.src in ('*^', '*v') for c in m.cells()) and gl:
        acc.nontriv(digest(text))
    acc.count('transitions')
    got = listing(doc.get_all_tokens())
    acc.outcome(h64(got))
    if [g[0] for g in got] != [e[0] for e in exp]:
        acc.violation(Viol('listing', 'order-or-cells-differ-from-spine-path-order', case, [e[0] for e in exp], [g[0] for g in got]))
        return
    bad = [(g, e) for g, e in zip(got, exp) if e[1] is not None and g[1] != e[1]]
    if bad:
        acc.violation(Viol('listing', 'category-differs-from-documented', case, bad[0][1], bad[0][0]))
        return
    exp = [(e[0], g[1]) for g, e in zip(got, exp)]       # cells whose category the documentation leaves open take kernpy's
    _two_documents(acc, doc, exp, case)
    # ONE filter container edited in place between consecutive queries (list and set): every query must answer for the container's CURRENT content
    try:
        for shape in (list, set):
            box = shape([TC.CORE])
            seq_ = [('CORE',), ('CORE', 'BARLINES'), ('BARLINES',), ('BARLINES', 'SIGNATURES'), ('SIGNATURES',)]
            for names in seq_:
                if shape is list:
                    box[:] = [TC[x] for x in names]
                else:
                    box.clear()
                    box.update(TC[x] for x in names)
                clo = catref.closure(names)
                e = [x for x in exp if x[1] in clo]
                acc.count('transitions', 3)
                g1 = listing(doc.get_all_tokens(filter_by_categories=box))
                e_u, seen_ = [], set()
                for x in e:
                    if x[0] not in seen_:
                        seen_.add(x[0])
                        e_u.append(x)
                g2 = listing(doc.get_unique_tokens(filter_by_categories=box))
                fr = doc.frequencies(box)
                if g1 != e or g2 != e_u or sum(v['occurrences'] for v in fr.values()) != len(e):
                    acc.violation(Viol('filter-container-edited-in-place', 'answers-for-an-earlier-content-of-the-container', dict(case, filter=list(names), container=shape.__name__), len(e), [len(g1), len(g2)]))
                    break
    except Exception as e_:  # noqa
        acc.violation(Viol('filter-container-edited-in-place', 'raises', case, None, f'{type(e_).__name__}: {str(e_)[:100]}'))
    hd = h64(text)
    filters = [None] + SINGLES + (ROT if all_filters else [f for i, f in enumerate(ROT) if (i + hd) % 8 == 0])
    if only_filters is not None and not all_filters:
        filters = only_filters
    for f in filters:
        clo = catref.ALL if f is None else catref.closure(f)
        arg = None if f is None else [TC[x] for x in f]
        e = [x for x in exp if x[1] in clo]
        acc.count('transitions', 4)
        acc.count('traces')
        c2 = dict(case, filter=f)
        try:
            g = listing(doc.get_all_tokens(filter_by_categories=arg))
            if g != e:
                acc.violation(Viol('filtered-listing', 'not-the-subsequence-in-the-closure', c2, e, g))
                continue
            if doc.get_all_tokens_encodings(arg) != [x[0] for x in e]:
                acc.violation(Viol('filtered-listing', 'encodings-listing-differs', c2, None, None))
            u, seen = [], set()
            for x in e:
                if x[0] not in seen:
                    seen.add(x[0])
                    u.append(x)
            gu = listing(doc.get_unique_tokens(filter_by_categories=arg))
            if gu != u:
                acc.violation(Viol('unique-listing', 'not-the-first-occurrences', c2, u, gu))
            if doc.get_unique_token_encodings(arg) != [x[0] for x in u]:
                acc.violation(Viol('unique-listing', 'encodings-listing-differs', c2, None, None))
            fr = doc.frequencies(arg)
            cnt = Counter(x[0] for x in e)
            if {k: v['occurrences'] for k, v in fr.items()} != dict(cnt) or sum(v['occurrences'] for v in fr.values()) != len(e):
                acc.violation(Viol('frequencies', 'counts-do-not-sum-to-the-listing', c2, dict(cnt), {k: v['occurrences'] for k, v in fr.items()}))
            elif any(fr[x[0]]['category'] != x[1] for x in u):
                acc.violation(Viol('frequencies', 'category-of-first-occurrence-differs', c2, None, None))
        except Exception as ex:  # noqa
            acc.violation(Viol('query', 'raises', c2, None, f'{type(ex).__name__}: {str(ex)[:100]}'))
    # comment query
    acc.count('transitions', 4)
    try:
        if doc.get_metacomments() != gl:
            acc.violation(Viol('comment-query', 'not-the-comment-lines-in-order', case, gl, doc.get_metacomments()))
        keys = {'COM', 'OTL', 'end', 'zzz'}
        for x in gl:                       # every prefix of every reference key present (a key that is a prefix of another one, one letter, the empty key)
            if x.startswith('!!!'):
                k = x[3:].split(':')[0]
                keys.update(k[:i] for i in range(0, len(k) + 1) if i <= 3 or i == len(k))
        for key in sorted(keys):
            e = [x for x in gl if x.startswith(f'!!!{key}')]
            if doc.get_metacomments(key) != e:
                acc.violation(Viol('comment-query', 'key-filter-differs', dict(case, key=key), e, doc.get_metacomments(key)))
            ec = [x.replace(f'!!!{key}: ', '') for x in e]
            if doc.get_metacomments(key, clear=True) != ec:
                acc.violation(Viol('comment-query', 'key-filter-differs', dict(case, key=key, clear=True), ec, doc.get_metacomments(key, clear=True)))
    except Exception as ex:  # noqa
        acc.violation(Viol('comment-query', 'raises', case, None, f'{type(ex).__name__}: {str(ex)[:100]}'))
    # monophony
    if not mono:
        return
    acc.count('transitions')
    kinds = [c.spec['k'] for c in m.cells()]
    expm = headers.count('**kern') == 1 and 'c' not in kinds and 'n' in kinds
    try:
        gm = kp.is_monophonic(doc)
    except Exception as ex:  # noqa
        gm = f'{type(ex).__name__}'
    if gm != expm:
        acc.violation(Viol('monophony', 'differs-from-definition', case, expm, gm))


def menu(m, n, seed, cap):
    rows = [(k, X.content_row(m, k, n, seed)) for k in 'dicb']
    rows.append(('g', ('g', A.GCOMM[(n + seed) % len(A.GCOMM)])))
    rows += X.split_rows(m, cap) + X.join_rows(m) + X.mixed_rows(m, cap) + X.term_rows(m)
    return rows


_PREV = []     # (document, expected listing, case): the document checked before, still alive


def _two_documents(acc, doc, exp, case):
    """queries on another document in between must not change what an earlier document answers"""
    if _PREV:
        pdoc, pexp, pcase = _PREV[0]
        acc.count('transitions', 2)
        try:
            got = listing(pdoc.get_all_tokens())
            gotf = listing(pdoc.get_unique_tokens(filter_by_categories=[TC.CORE, TC.BARLINES]))
            clo = catref.closure(['CORE', 'BARLINES'])
            u, seen = [], set()
            for x in pexp:
                if x[1] in clo and x[0] not in seen:
                    seen.add(x[0])
                    u.append(x)
            if got != pexp or gotf != u:
                acc.violation(Viol('two-documents', 'an-earlier-document-answers-differently-after-another-one-was-queried', dict(pcase, then=case['text']), None, None))
        except Exception as e:  # noqa
            acc.violation(Viol('two-documents', 'raises', dict(pcase, then=case['text']), None, repr(e)[:100]))
    _PREV[:] = [(doc, exp, case)]


def _job(job):
    headers, prefix, depth, seed, cap, pre = job
    acc = Acc()
    _PREV.clear()
    X.walk(headers, depth, seed, cap, menu, lambda h: check_doc(acc, headers, h, pre), prefix, pre)
    if prefix:
        acc.sample({'text': X.build(headers, prefix, pre).text(), 'filters': 'none, 37 singles, rotating pairs/complements'}, cap=1)
    return acc


def _huge_job(job):
    """documents far beyond the bounds (680 rows, 137 measures, the same cells dozens of times): listing, filters, unique, frequencies, comments"""
    from .. import docspace as D
    h, seq, sd, pre = job
    acc = Acc()
    _PREV.clear()
    m = D.materialise((h, seq, sd), pre=pre)
    pre = tuple(r for _k, r in m.rows[:m.header_row])
    check_doc(acc, h, D.hist_of(m), pre, all_filters=True)
    acc.nontriv(('huge', tuple(h), sd))
    return acc


# comment layouts: every sequence of <= 3 of these lines before the header, inside the score and after the terminators
CLINES = ['!!!OTL: a', '!!!OTL@@DE: b', '!!!OTL: c', '!!!OTLX: d', '!!!O: e', '!!', '!!!', '!!!: nokey', '!!!COM:nospace', '!! spaced', '!!plain', '!!!COM: Bach',
          '!!!COM: Bach', '!!!key with space: v', '!!!!four']


def _comment_job(job):
    lo, hi, depth = job
    acc = Acc()
    _PREV.clear()
    seqs = [()] + [s for n in range(1, depth + 1) for s in itertools.product(range(len(CLINES)), repeat=n)]
    for si in range(lo, min(hi, len(seqs))):
        cl = [CLINES[i] for i in seqs[si]]
        for place in range(3):
            for headers in (['**kern'], ['**kern', '**text']):
                m0 = Model(headers)
                d1 = X.content_row(m0, 'd', 1, si)
                pre = tuple(cl) if place == 0 else ('!!!COM: pre',)
                hist = [d1] + ([('g', c) for c in cl] if place == 1 else []) + [X.content_row(m0, 'd', 2, si)]
                if place == 2:
                    # after the terminators: close the spines by hand, then the comments
                    hist = hist + [[A.TERM for _ in headers]] + [('g', c) for c in cl]
                check_doc(acc, headers, hist, pre, mono=False, only_filters=[None, ('COMMENTS',), ('LINE_COMMENTS',), ('FIELD_COMMENTS',), ('CORE', 'LINE_COMMENTS'), ('STRUCTURAL',)])
                acc.nontriv(('comments', si, place, len(headers)))
    return acc


MONO = [("**kern\n4c\n*-\n", True), ("**kern\n4c 4e\n*-\n", False), ("**kern\n*clefG2\n*-\n", False), ("**kern\t**text\n4r\tla\n*-\t*-\n", True),
        ("**kern\t**kern\n4c\t4d\n*-\t*-\n", False), ("**text\nla\n*-\n", False), ("**kern\n*^\n4c\t4d\n*v\t*v\n*-\n", True), ("**kern\n.\n*-\n", False),
        ("**kern\n4r\n*-\n", True), ("**text\t**kern\n4c\t.\n*-\t*-\n", False)]


def run(ctx):
    quick = ctx.quick
    seed = ctx.seed
    PRE = ('!!!COM: Bach', '!!plain')
    cfg = [(['**kern'], 5, ()), (['**kern'], 4, PRE), (['**kern', '**text'], 4, ()), (['**kern', '**text'], 3, PRE), (['**text', '**kern', '**kern'], 3, PRE),
           (['**kern', '**kern'], 4, ()), (['**dynam', '**harm'], 3, ()), (['**root', '**fing', '**kern'], 3, PRE)]
    if not quick:
        cfg = [(h, d + 1, p) for h, d, p in cfg] + [(['**kern', '**text', '**kern', '**dynam'], 3, PRE), (['**mxhm', '**kern', '**dyn'], 3, ())]
    ctx.rule = ('every enabled row sequence up to the depth bound (global comments before, inside and after the spines) x filters; '
                'non-trivial = document with a split or join and at least one global comment')
    ctx.bounds = {'configurations': [{'headers': h, 'depth': d, 'pre_header_comments': len(p)} for h, d, p in cfg], 'column_cap': 5,
                  'filters': {'singles': 37, 'rotating': len(ROT)}}
    ctx.assumptions = ['documented category per cell kind from kv/alphabet.py; depth-first order from kv/model.py',
                       'key designations (*C:) are generated but their category is not compared (documentation ambiguous)']
    # hand-written monophony cases (definition corner cases)
    for text, expm in MONO:
        d, _ = kp.loads(text)
        ctx.count('transitions')
        if kp.is_monophonic(d) != expm:
            ctx.violation(Viol('monophony', 'differs-from-definition', {'text': text, 'headers': text.split('\n')[0].split('\t'), 'pre': []}, expm, not expm))
    jobs = []
    for h, d, p in cfg:
        shorter, js = X.walk_jobs(h, d, seed, 5, menu, split_at=min(2, d), pre=p)
        a = Acc()
        for hist in shorter:
            check_doc(a, h, hist, p)
        ctx.merge(a)
        jobs += [(h, pr, rem, seed, 5, p) for pr, rem in js]
    from .. import docspace as D
    ctx.pmap(_huge_job, [(h, s, sd, p) for (h, s, sd), p in zip(D.huge_docs(seed + 7) + D.giant_jobs(seed) + D.aligned_jobs(seed), ((), PRE, PRE, (), (), (), ()))], chunksize=1)
    ctx.pmap(_job, jobs, chunksize=1)
    cd = 2 if quick else 3
    nseq = sum(len(CLINES) ** n for n in range(cd + 1))
    ctx.bounds['comment_layouts'] = {'lines': len(CLINES), 'sequence_length': cd, 'placements': ['before the header', 'inside the score', 'after the terminators']}
    ctx.pmap(_comment_job, [(lo, lo + 40, cd) for lo in range(0, nseq, 40)], chunksize=1)


def replay(case):
    acc = Acc()
    if 'then' in case:
        # the pair of documents: rebuild the first from its history, then any document with the recorded second text
        _PREV.clear()
        check_doc(acc, case['headers'], X.hist_from_json(case['hist']), tuple(case.get('pre', ())), mono=False)
        d2, _ = kp.loads(case['then'])
        for f in (None, [TC.CORE], [TC.BARLINES, TC.SIGNATURES], [TC.CHORD, TC.BARLINES]):
            d2.get_all_tokens(filter_by_categories=f); d2.get_unique_tokens(filter_by_categories=f); d2.frequencies(f)
        kp.is_monophonic(d2)
        pdoc, pexp, pcase = _PREV[0]
        if listing(pdoc.get_all_tokens()) != pexp:
            acc.violation(Viol('two-documents', 'an-earlier-document-answers-differently-after-another-one-was-queried', case, None, None))
        return acc.viol
    if 'hist' not in case:
        for text, expm in MONO:
            if text == case['text'] and kp.is_monophonic(kp.loads(text)[0]) != expm:
                acc.violation(Viol('monophony', 'differs-from-definition', case, expm, not expm))
        return acc.viol
    check_doc(acc, case['headers'], X.hist_from_json(case['hist']), tuple(case.get('pre', ())), all_filters=True)
    return acc.viol
