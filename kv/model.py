"""Reference model of a Humdrum document (DESIGN.md §2.1).  Independent of kernpy: it never parses a token.

Model            the row transition system (spine paths) + everything derived from it:
                 expected tree, column->spine map, DFS token order, signature context per cell
ref_rows()       reference exporter: T_spine, T_cat on the abstract grid
compare_export() comparison of a kernpy export with the reference under the leniencies of DESIGN §2.1
"""
from collections import Counter

from . import catref, pitchref
from .alphabet import NULLS

ALLCATS = catref.ALL
PREFIX = {'kern': '', 'ekern': 'e', 'bkern': 'b', 'bekern': 'be', 'akern': 'a', 'aekern': 'ae'}
EXTENDED = {'kern': 'ekern', 'bkern': 'bekern', 'akern': 'aekern'}


class MCell:
    __slots__ = ('spec', 'row', 'col', 'spine', 'parent', 'children', 'stage')

    def __init__(self, spec, row, col, spine, parent):
        self.spec, self.row, self.col, self.spine, self.parent = spec, row, col, spine, parent
        self.children = []
        self.stage = None
        if parent is not None:
            parent.children.append(self)

    @property
    def src(self):
        return self.spec['src']


class Model:
    """rows: list of ('g', text) global comment | ('c', [MCell]) cell row.  Stage k+1 of kernpy's tree = rows[k]."""

    def __init__(self, headers, pre=()):
        from .alphabet import V
        self.headers = list(headers)
        self.rows = [('g', t) for t in pre]
        cells = [MCell(V(h, 'HEADER'), len(self.rows), i, i, None) for i, h in enumerate(headers)]
        self.header_row = len(self.rows)
        self.rows.append(('c', cells))
        self.live = list(cells)

    # -- transitions -----------------------------------------------------------------------------
    def width(self):
        return len(self.live)

    def types(self):
        return [self.headers[c.spine] for c in self.live]

    def spines(self):
        return [c.spine for c in self.live]

    def add_g(self, text):
        self.rows.append(('g', text))

    def add(self, specs):
        assert len(specs) == len(self.live), (len(specs), len(self.live))
        r = len(self.rows)
        cells = [MCell(s, r, i, p.spine, p) for i, (s, p) in enumerate(zip(specs, self.live))]
        self.rows.append(('c', cells))
        nl = []
        i = 0
        while i < len(cells):
            c = cells[i]
            t = c.src
            if t == '*^':
                nl += [c, c]
            elif t == '*-':
                pass
            elif t == '*v':
                nl.append(c)
                j = i + 1
                while j < len(cells) and cells[j].src == '*v' and cells[j].spine == c.spine:
                    j += 1
                i = j
                continue
            else:
                nl.append(c)
            i += 1
        self.live = nl
        return cells

    def close(self):
        from .alphabet import TERM
        if self.live:
            self.add([TERM] * len(self.live))
        return self

    # -- derived views ---------------------------------------------------------------------------
    def lines(self):
        return [r if k == 'g' else '\t'.join(c.src for c in r) for k, r in self.rows]

    def text(self, eol='\n', final=True):
        return eol.join(self.lines()) + (eol if final else '')

    def crows(self):
        return [r for k, r in self.rows if k == 'c']

    def cells(self):
        for k, r in self.rows:
            if k == 'c':
                yield from r

    def dfs_order(self):
        """[(encoding, category)] in the order the property prescribes."""
        pre = [(r, 'LINE_COMMENTS') for k, r in self.rows[:self.header_row] if k == 'g']
        post = [(r, 'LINE_COMMENTS') for k, r in self.rows[self.header_row:] if k == 'g']
        out = list(pre)
        stack = list(reversed(self.rows[self.header_row][1]))
        while stack:
            c = stack.pop()
            out.append((token_encoding(c.spec), c.spec['cat']))
            stack.extend(reversed(c.children))
        return out + post

    def context(self):
        """id(cell) -> {'clef','key','time','met'} in force AT that cell (own signature included)."""
        ctx = {}
        for c in self.cells():
            base = ctx[id(c.parent)] if c.parent is not None else {'clef': None, 'key': None, 'time': None, 'met': None}
            k = sig_kind(c.spec)
            if k:
                base = dict(base)
                base[k] = c.src
            ctx[id(c)] = base
        return ctx


def token_encoding(spec):
    """what token.encoding holds: the source text, except for barlines (number removed)"""
    return spec['out'] if spec['k'] == 'v' else spec['src']


def sig_kind(spec):
    c = spec.get('cat')
    return {'CLEF': 'clef', 'KEY_SIGNATURE': 'key', 'TIME_SIGNATURE': 'time', 'METER_SYMBOL': 'met'}.get(c)


# ---------------------------------------------------------------------------------------------------
# tree refinement (C02)

def check_tree(m: Model, doc, literal=True):
    """Compare kernpy's tree with the model.  Returns a list of (symptom, detail)."""
    out = []
    stages = doc.tree.stages
    if len(stages) != len(m.rows) + 1:
        return [('stage-count', f'{len(stages) - 1} stages for {len(m.rows)} non-empty lines')]
    node_of = {}
    last_pre = None  # node of the last global comment before the header
    for k, (kind, r) in enumerate(m.rows):
        st = stages[k + 1]
        if kind == 'g':
            if len(st) != 1 or getattr(st[0].token, 'encoding', None) != r:
                out.append(('global-comment-stage', f'row {k}: {[getattr(n.token, "encoding", None) for n in st]} vs {r!r}'))
            continue
        if len(st) != len(r):
            out.append(('node-count', f'row {k}: {len(st)} nodes for {len(r)} cells'))
            continue
        for n, c in zip(st, r):
            node_of[id(c)] = n
            if n.stage != k + 1:
                out.append(('stage-index', f'row {k} col {c.col}: node.stage={n.stage}'))
            enc = getattr(n.token, 'encoding', None)
            if literal and enc != token_encoding(c.spec):
                out.append(('cell-text', f'row {k} col {c.col}: {enc!r} vs {token_encoding(c.spec)!r}'))
            h = n.header_node
            if h is None or getattr(h.token, 'spine_id', None) != c.spine or getattr(h.token, 'encoding', None) != m.headers[c.spine]:
                out.append(('header-node', f'row {k} col {c.col}: header {getattr(getattr(h, "token", None), "encoding", None)!r}'
                                           f'#{getattr(getattr(h, "token", None), "spine_id", None)} vs {m.headers[c.spine]}#{c.spine}'))
            if c.parent is not None:
                if n.parent is not node_of.get(id(c.parent)):
                    out.append(('parent', f'row {k} col {c.col} ({c.src!r}): parent is {getattr(getattr(n.parent, "token", None), "encoding", None)!r} '
                                          f'stage {getattr(n.parent, "stage", None)}, expected {c.parent.src!r} row {c.parent.row}'))
    # children lists mirror the model (order included)
    for c in m.cells():
        n = node_of.get(id(c))
        if n is None:
            continue
        exp = [node_of.get(id(ch)) for ch in c.children]
        got = [x for x in n.children if getattr(x.token, 'category', None) is None or x.token.category.name != 'LINE_COMMENTS']
        if c.row == m.header_row:
            pass
        if len(got) != len(exp) or any(a is not b for a, b in zip(got, exp)):
            out.append(('children', f'row {c.row} col {c.col}: {len(got)} children vs {len(exp)}'))
    return out


# ---------------------------------------------------------------------------------------------------
# reference exporter

NULL = 'NULL'


def ref_note(spec, S, basic=False):
    main = [t for t, cat in spec['main'] if cat in S]
    dec = [] if (basic or 'DECORATION' not in S) else list(spec['dec'])
    if not main and not dec:
        return NULL
    return ('N', main, dec)


def ref_cell(spec, S, basic=False):
    k = spec['k']
    if k == 'v':
        if spec.get('hidden'):
            return NULL          # an invisible token is exported as a null placeholder whatever the selection
        if spec['cat'] == 'EMPTY' or (spec['cat'] is not None and spec['cat'] not in S):
            return NULL          # cat None = category not settled by the documentation: generated only in unfiltered exports
        return spec['out']
    if k == 'n':
        return ref_note(spec, S, basic)
    if 'CHORD' not in S:
        return NULL
    return ('C', [ref_note(n, S, basic) for n in spec['notes']])


def is_null(e):
    return e == NULL or (isinstance(e, tuple) and e[0] == 'C' and all(n == NULL for n in e[1]))


def ref_rows(m: Model, keep_spines=None, S=None, basic=False):
    """-> list of dict(row=index in m.rows, cells=[MCell], exp=[expected], optional=bool)"""
    S = ALLCATS if S is None else S
    out = []
    for ri, (kind, r) in enumerate(m.rows):
        if kind == 'g':
            continue
        cells = [c for c in r if keep_spines is None or c.spine in keep_spines]
        if not cells:
            continue
        exp = [ref_cell(c.spec, S, basic) for c in cells]
        if all(e == NULL for e in exp):
            continue
        out.append({'row': ri, 'cells': cells, 'exp': exp, 'optional': all(is_null(e) for e in exp)})
    return out


def basic_enc(enc):
    return enc in ('bkern', 'bekern')


def parse_note_ext(t):
    if t in NULLS:
        return NULL
    parts = t.split('·')
    main = [x for x in parts[0].split('@') if x]
    dec = [x for p in parts[1:] for x in [p] if x]
    return ('N', main, dec)


def _agn(spec_note, clef, S, bottom_of):
    """expected main components of a note in an agnostic encoding: list of acceptable component multisets"""
    durs = [t for t, cat in spec_note['main'] if cat == 'DURATION' and cat in S]
    pit = [t for t, cat in spec_note['main'] if cat == 'PITCH' and cat in S]
    acc = [t for t, cat in spec_note['main'] if cat == 'ALTERATION' and cat in S]
    rst = [t for t, cat in spec_note['main'] if cat == 'REST' and cat in S]
    if not pit:
        return [durs + acc + rst]
    letter, _, octave = pitchref.parse(pit[0])
    bl, bo = bottom_of(clef)
    a = pitchref.agnostic(letter, octave, bl, bo)
    return [durs + [a + ''.join(acc)] + rst, durs + [a] + acc + rst]


def compare_export(m: Model, out_text, enc='ekern', keep_spines=None, S=None, clefctx=None, bottom_of=None, strict_sigs=True):
    """Compare kernpy's export `out_text` with the reference.  Returns list of (symptom, detail).
    enc is one of the six encoding values; for agnostic encodings clefctx = m.context() and bottom_of(clef_text)->(letter,octave)."""
    S = ALLCATS if S is None else S
    ext = enc in ('ekern', 'bekern', 'aekern')
    basic = enc in ('bkern', 'bekern')
    agn = enc in ('akern', 'aekern')
    rows = ref_rows(m, keep_spines, S, basic)
    lines = out_text.split('\n')
    if lines and lines[-1] == '':
        lines = lines[:-1]
    elif out_text:
        return [('no-final-newline', repr(out_text[-20:]))]
    problems = []
    li = 0
    for r in rows:
        if li >= len(lines):
            if r['optional']:
                continue
            problems.append(('row-missing', f'model row {r["row"]}: {[c.src for c in r["cells"]]}'))
            return problems
        got = lines[li].split('\t')
        p = _cmp_row(r, got, enc, ext, agn, S, clefctx, bottom_of, strict_sigs, m)
        if p and r['optional']:
            continue            # an all-null-chord row may be absent
        li += 1
        if p:
            problems += p
            if len(problems) > 5:
                return problems
    if li < len(lines):
        problems.append(('row-extra', f'{len(lines) - li} extra line(s), first {lines[li]!r}'))
    return problems


def _cmp_row(r, got, enc, ext, agn, S, clefctx, bottom_of, strict_sigs, m):
    if len(got) != len(r['exp']):
        return [('cell-count', f'model row {r["row"]}: {len(got)} cells {got!r} vs {len(r["exp"])}')]
    out = []
    for g, e, c in zip(got, r['exp'], r['cells']):
        spec = c.spec
        where = f'row {r["row"]} col {c.col} src {spec["src"]!r}'
        if is_null(e):
            if g not in NULLS and not (isinstance(e, tuple) and all(x in NULLS for x in g.split(' '))):
                out.append(('not-null', f'{where}: got {g!r}'))
            continue
        if isinstance(e, str):
            want = e
            if spec['cat'] == 'HEADER':
                want = '**' + PREFIX[enc] + e[2:]
            if g != want:
                out.append(('verbatim', f'{where}: got {g!r} want {want!r}'))
            continue
        # notes / chords
        if e[0] == 'N':
            enotes, snotes, gnotes = [e], [spec], [g]
        else:
            enotes, snotes = e[1], spec['notes']
            gnotes = g.split(' ')
            if len(gnotes) != len(enotes):
                out.append(('chord-note-count', f'{where}: got {g!r} for {len(enotes)} notes'))
                continue
        union = set(d for n in snotes for d in n['dec'])
        for gn, en, sn in zip(gnotes, enotes, snotes):
            if en == NULL:
                if gn not in NULLS:
                    # a chord note may carry signifiers of the other notes of its chord ("at least their own"), so a chord note
                    # whose own parts are all filtered out may still show those - and nothing else
                    ok = False
                    if e[0] == 'C' and 'DECORATION' in S and not basic_enc(enc):
                        if ext:
                            pn = parse_note_ext(gn)
                            ok = pn != NULL and not pn[1] and set(pn[2]) <= union
                        else:
                            ok = set(gn) <= set(''.join(union))
                    if not ok:
                        out.append(('note-not-null', f'{where}: got {gn!r}'))
                continue
            if agn:
                clef = clefctx[id(c)]['clef'] if clefctx is not None else None
                mains = _agn(sn, clef, S, bottom_of)
            else:
                mains = [en[1]]
            edec = en[2]
            if ext:
                pn = parse_note_ext(gn)
                if pn == NULL:
                    out.append(('note-null', f'{where}: got {gn!r} want {en!r}'))
                    continue
                if not any(Counter(pn[1]) == Counter(x) for x in mains):
                    out.append(('note-main', f'{where}: got {pn[1]!r} want {mains[0]!r}'))
                gd = pn[2]
                if len(gd) != len(set(gd)):
                    out.append(('signifier-repeated', f'{where}: got {gd!r}'))
                if e[0] == 'N':
                    okd = set(gd) == set(edec)      # single notes: exactly their set
                else:                               # chord notes: at least their own, nothing from outside the chord
                    okd = set(edec) <= set(gd) <= (union if ('DECORATION' in S and enc != 'bekern') else set())
                if not okd:
                    out.append(('note-signifiers', f'{where}: got {gd!r} want {edec!r}'))
            else:
                # plain encodings: character multiset of the concatenated components
                alts = [Counter(''.join(x) + ''.join(edec)) for x in mains]
                gc = Counter(gn)
                ok = any(gc == a for a in alts)
                if not ok and e[0] == 'C' and 'DECORATION' in S and enc != 'bkern':
                    # chord notes may carry signifiers of the other notes of the chord (at least their own)
                    for a in alts:
                        extra = gc - a
                        if not (a - gc) and set(extra) <= set(''.join(union)):
                            ok = True
                if not ok:
                    out.append(('note-plain', f'{where}: got {gn!r} want chars of {mains[0]!r}+{edec!r}'))
    return out
