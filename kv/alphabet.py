"""Token corpora and palettes (DESIGN.md §2.7).  Every cell is generated from an *abstract description first*:

    V(src, cat, out)         a cell reproduced verbatim (out = expected export; barlines lose their number)
    N(src, main, dec)        a note or rest: main = [(text, category)] duration marks, pitch, accidental / rest;
                             dec = signifiers (category DECORATION)
    CH(notes)                a chord of notes/rests

Categories are the documented TokenCategory *names*.  No kernpy import here."""
import itertools

NULLS = ('.', '*', '')


def V(src, cat, out=None):
    return {'k': 'v', 'src': src, 'cat': cat, 'out': src if out is None else out}


def N(src, main, dec=()):
    return {'k': 'n', 'src': src, 'cat': 'NOTE_REST', 'main': [tuple(m) for m in main], 'dec': sorted(set(dec))}


def CH(*notes):
    return {'k': 'c', 'src': ' '.join(n['src'] for n in notes), 'cat': 'CHORD', 'notes': list(notes)}


def dur_parts(d):
    """'8.' -> ['8', '.'];  '16%3' -> ['16%3'];  '8qq' -> ['8', 'qq'];  '4p' -> ['4', 'p'];  '' -> []"""
    if not d:
        return []
    i = 0
    while i < len(d) and (d[i].isdigit() or d[i] == '%'):
        i += 1
    out = [d[:i]]
    rest = d[i:]
    while rest.startswith('.'):
        out.append('.')
        rest = rest[1:]
    if rest:
        out.append(rest)
    return out


def note(dur, pitch, acc='', sigs=(), src=None):
    main = [(x, 'DURATION') for x in dur_parts(dur)] + [(pitch, 'PITCH')] + ([(acc, 'ALTERATION')] if acc else [])
    return N(src if src is not None else dur + pitch + acc + ''.join(sigs), main, sigs)


def rest(dur, sigs=(), src=None):
    main = [(x, 'DURATION') for x in dur_parts(dur)] + [('r', 'REST')]
    return N(src if src is not None else dur + 'r' + ''.join(sigs), main, sigs)


NULL_D = V('.', 'EMPTY')
NULL_I = V('*', 'EMPTY')
SPLIT = V('*^', 'SPINE_OPERATION')
JOIN = V('*v', 'SPINE_OPERATION')
TERM = V('*-', 'SPINE_OPERATION')

HEADER_TYPES = ['**kern', '**text', '**dynam', '**dyn', '**harm', '**mxhm', '**fing', '**root']
OWN_CAT = {'**text': 'LYRICS', '**dynam': 'DYNAMICS', '**dyn': 'DYNAMICS', '**harm': 'HARMONY', '**mxhm': 'HARMONY',
           '**fing': 'FINGERING', '**zzz': 'OTHER'}
KERN_LIKE = ('**kern', '**root')

# --- signifiers (C01 canonicity) -----------------------------------------------------------------
SIG = list("^'s\"`~TtLJKkX;:[_]MmWw{}()/\\S$iNjZOlV")
SIG_DISPLAY = set('XijZ')     # also read as accidental-display suffix: only on notes without accidental

# --- kern data cells -------------------------------------------------------------------------------
KDATA = [
    note('4', 'c'),
    note('8.', 'ee', '-', ['J', ';'], src='8.ee-J;'),
    note('2..', 'CC', '#', ['(', 'L'], src='(2..CC#L'),
    note('16%3', 'bb', 'n', ['(', ')'], src='(16%3bbn)'),
    note('8q', 'g'),
    note('8qq', 'a', '', ['/'], src='8qqa/'),
    note('4p', 'd', '#X', src='4pd#X'),
    note('4P', 'e', '', ['[', '_'], src='[4Pe_'),
    rest('4', [';']),
    rest('1'),
    rest('8.'),
    N('qf', [('f', 'PITCH')], ['q']),
    CH(note('4', 'c'), note('4', 'e', '-')),
    CH(note('4', 'c', '', ['L']), note('4', 'e', '', ['J']), note('4', 'g')),
    CH(note('8', 'C'), rest('8')),
    note('4', 'ccc', '##', ["'", '^'], src="4ccc##'^"),
    note('2', 'BB', '--', ['~'], src='2BB--~'),
    note('4', 'f', '#', ['T'], src='4f#T'),
    note('8', 'a', '-y', src='8a-y'),
    note('16', 'dd', '', ['k', 'k'], src='16ddkk'),
    CH(note('4', 'C', '#'), note('4', 'E'), note('4', 'G')),
    CH(note('8.', 'f', 'n', ['(']), note('8.', 'a', '-'), note('8.', 'cc')),
    CH(note('2', 'GG', '--'), note('4', 'D', '', [';'])),
    note('4', 'AA', '#', ['/', 'L'], src='4AA#/L'),
    CH(note('4', 'D', '', ['[']), note('4', 'D'), note('4', 'A')),
    # signifiers that combine with a neighbour in the grammar (one decoration each): conservation only, not canonicity
    note('4', 'c', '', ['L>'], src='4cL>'), note('4', 'd', '', ['&('], src='&(4d'), note('8', 'e', '', ['xx'], src='8exx'), note('4', 'f', '', ['??'], src='4f??'),
    rest('4', ['yy']),
    # rests with a vertical position mark (kernpy keeps it as a signifier) and a note with two different articulation marks written in non-canonical order
    rest('4', ['gg'], src='4rgg'), rest('8', ['GG', ';'], src='8rGG;'), note('4', 'b', '', ["'", '~'], src="4b~'"),
    # chords whose notes REPEAT a signifier (every note its own fermata / tie start / beam mark)
    CH(note('4', 'c', '', [';']), note('4', 'e', '', [';']), note('4', 'g', '', [';'])),
    CH(note('2', 'C', '', ['['], src='[2C'), note('2', 'E', '-', ['['], src='[2E-'), note('2', 'G', '', ['['], src='[2G')),
    CH(note('8', 'd', '', ['L']), note('8', 'f', '#', ['/'], src='8f#/'), note('8', 'a', '', ['L'])),
    NULL_D,
]
# duration-less notes and rests for **root columns (kernpy parses **root with the kern grammar)
RDATA = [N('C', [('C', 'PITCH')]), N('G-', [('G', 'PITCH'), ('-', 'ALTERATION')]), N('a', [('a', 'PITCH')]),
         N('F#', [('F', 'PITCH'), ('#', 'ALTERATION')]), rest('4'), NULL_D]

# --- interpretations: one token per grammar alternative ----------------------------------------------
KINT = [
    V('*clefG2', 'CLEF'), V('*clefF4', 'CLEF'), V('*clefC3', 'CLEF'), V('*clefCv3', 'CLEF'), V('*clefG^2', 'CLEF'),
    V('*k[f#c#]', 'KEY_SIGNATURE'), V('*k[]', 'KEY_SIGNATURE'), V('*k[b-e-a-]X', 'KEY_SIGNATURE'), V('*kcancel', 'KEY_SIGNATURE'),
    V('*M4/4', 'TIME_SIGNATURE'), V('*M3+2/8', 'TIME_SIGNATURE'), V('*M2/4%2', 'TIME_SIGNATURE'), V('*M2/4+3/8', 'TIME_SIGNATURE'),
    V('*met(c)', 'METER_SYMBOL'), V('*met(c|)', 'METER_SYMBOL'), V('*M(C|)', 'METER_SYMBOL'),
    V('*staff1', 'STRUCTURAL'), V('*staff1/2', 'STRUCTURAL'),
    V('*MM120', 'OTHER_CONTEXTUAL'), V('*MM60.5', 'OTHER_CONTEXTUAL'), V('*X8va', 'OTHER_CONTEXTUAL'), V('*8ba', 'OTHER_CONTEXTUAL'),
    V('*I"Piano', 'INSTRUMENTS'), V('*IPiano', 'INSTRUMENTS'),
    V('*>A', 'OTHER'), V('*>[A,B]', 'OTHER'), V('*>norep[A]', 'OTHER'), V('*tb8', 'OTHER'), V('*part1', 'OTHER'),
    V('*group2', 'OTHER'), V('*Trd1c2', 'OTHER'), V('*lh', 'OTHER'), V('*rh', 'OTHER'), V('*S/sic', 'OTHER'),
    V('*solo', 'OTHER'), V('*accomp', 'OTHER'), V('*strophe', 'OTHER'), V('*mI"x', 'OTHER'),
    V('*ped', 'ENGRAVED_SYMBOLS'), V('*Xped', 'ENGRAVED_SYMBOLS'), V('*above', 'ENGRAVED_SYMBOLS'), V('*below2', 'ENGRAVED_SYMBOLS'),
    V('*cue', 'ENGRAVED_SYMBOLS'), V('*Xcue', 'ENGRAVED_SYMBOLS'), V('*tremolo', 'ENGRAVED_SYMBOLS'), V('*tuplet', 'ENGRAVED_SYMBOLS'),
    V('*rscale:1/2', 'ENGRAVED_SYMBOLS'), V('*ela', 'ENGRAVED_SYMBOLS'), V('*tstart', 'ENGRAVED_SYMBOLS'), V('*centered', 'ENGRAVED_SYMBOLS'),
    V('*xywh-1:1,2,3,4', 'BOUNDING_BOXES'), V('*xywh-1:5,6,30,40', 'BOUNDING_BOXES'),
    NULL_I,
]
# key designations: category ambiguous between KEY_TOKEN and OTHER_CONTEXTUAL (DESIGN §2.1): only where the category is irrelevant
KINT_KEY = [V('*C:', None), V('*a-:dor', None)]
# interpretations that are structural in every spine type (C18): used in non-kern columns
XINT = [c for c in KINT if c['cat'] in ('CLEF', 'KEY_SIGNATURE', 'TIME_SIGNATURE', 'METER_SYMBOL', 'STRUCTURAL', 'BOUNDING_BOXES', 'EMPTY')]

CLEFS = ['*clefG2', '*clefF4', '*clefC3', '*clefC1', '*clefF3', '*clefGv2', '*clefG^2', '*clefC4', '*clefC2']

# --- barlines: (source, export) -------------------------------------------------------------------
_BLT = ['', '||', '|!', '|!:', '|:', '!|:', ':|!', ':|!|:', ':||:', ':!!:', '=']
BARS = []
for _t in _BLT:
    for _num in ('', '7'):
        for _f in ('', ';'):
            if _t == '=' and _num:
                continue          # '=7=' is not produced by the grammar in that order
            BARS.append((f'={_num}{_t}{_f}', f'={_t}{_f}'))
BARS += [('==:|!', '==:|!'), ('=23', '=')]


def BAR(i):
    s, o = BARS[i % len(BARS)]
    return V(s, 'BARLINES', o)


# --- free text for lyrics / dynamics / harmony / fingering columns ---------------------------------
TEXT = ['la', 'word with space', 'a,b', 'qu"ote', '"quoted"', 'ñandú', '漢', 'f', '4c', 'C7', 'p', 'I', ' lead', 'trail ',
        '-', '--', '|', '&amp;', 'x=1', '"lead', 'mid"dle"', 'see **ekern']
LOOKALIKE = ['=foo', '=c', '.foo', '.ñ', '*clefG2x', '*clefG6', '*notatandem', '*r', '=1zz']
BAD = {
    'unknown-character': ['4c€', '€', '4c\x01'],
    'wrong-order': ['c4', '#4c', '4r^', '16rx 16cc', '"h4d'],
    'truncated': ['4', '8.', '*clef', '*k[', '*M4/', '=:', '*xywh-01:10,20,30', '*xywh-01', '*MM', '*staff', '*>[A', '4c 4'],
    'trailing': ['4cU', '4c%', '=1zz', '*clefG2x', '4c 4eU', '.x'],
}
COMM = [V('!', 'FIELD_COMMENTS'), V('!x', 'FIELD_COMMENTS'), V('!LO:N:t=abc', 'FIELD_COMMENTS'), V('! spaced', 'FIELD_COMMENTS'),
        V('!cf. the **ekern and **etext editions', 'FIELD_COMMENTS')]      # free text that mentions an extended header
GCOMM = ['!!!COM: Bach', '!!plain', '!!plain', '!!!OTL: Title', '!!!COM: second', '!! spaced comment', '!!!end: 1', '!!!COM: Bach']


def text_cell(t, typ):
    return V(t, OWN_CAT[typ])


# --- palette: deterministic (row, column, seed) -> corpus member; neighbours never equal ---------
def pick(pal, n, col, seed, stride=3, cstride=5):
    return pal[(n * stride + col * cstride + seed) % len(pal)]


def data_cell(typ, n, col, seed):
    if typ == '**kern':
        return pick(KDATA, n, col, seed)
    if typ == '**root':
        return pick(RDATA, n, col, seed)
    t = pick(TEXT + ['.'], n, col, seed)
    return NULL_D if t == '.' else text_cell(t, typ)


def interp_cell(typ, n, col, seed, with_key=False):
    if typ in KERN_LIKE:
        pal = KINT + (KINT_KEY if with_key else [])
        return pick(pal, n, col, seed, 7, 3)
    if (n + col + seed) % 2 == 0:
        return pick(XINT, n, col, seed, 7, 3)
    if (n + col + seed) % 5 == 1:
        return V(['*IPiano', '*MM120', '*>A', '*ped'][(n + seed) % 4], OWN_CAT[typ])
    return NULL_I


def comment_cell(n, col, seed):
    return COMM[(n + col + seed) % len(COMM)]


# header configurations (Σ_hdr)
HDR_QUICK = [['**kern'], ['**kern', '**text'], ['**text', '**kern', '**kern'], ['**dynam', '**harm'], ['**root', '**fing', '**kern'],
             ['**kern', '**kern'], ['**mxhm', '**kern', '**dyn'], ['**kern', '**text', '**kern', '**dynam'], ['**fing']]


def hdr_thorough():
    out = [list(h) for h in HDR_QUICK]
    for p in itertools.product(HEADER_TYPES, repeat=2):
        if list(p) not in out:
            out.append(list(p))
    for h in (['**kern', '**harm', '**kern'], ['**text', '**text', '**kern'], ['**kern', '**root', '**dyn'],
              ['**kern', '**kern', '**kern'], ['**kern', '**fing', '**text', '**kern'], ['**mxhm', '**kern', '**kern', '**text']):
        if h not in out:
            out.append(h)
    return out
