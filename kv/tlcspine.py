"""C02, pass (d): the spine-path rules as a TLA+ model (tla/SpinePaths.tla), explored to closure by TLC, and EVERY edge of the
dumped state graph replayed against kernpy.

The TLA+ model is a second, independently written statement of the rules (kv/model.py is the first).  TLC enumerates every
reachable state (live layout, last row, hanging points) under a column cap and checks the model's own invariants; the labelled
state graph is dumped (`-dump dot,actionlabels`).  Conformance: for every edge u -> v a witness history of u (shortest path
from the initial state in the same graph) is rendered as Humdrum text, followed by v's row and a probe data row; kernpy imports
the text and the nodes of the probe row must hang from the cells the TLA+ state names, with the spine ids it names, and every
row must have the width the model says.  The same text is also compared with kv/model.py (three-way agreement).  A
disagreement between the two MODELS is a harness error, never a verdict about kernpy.
"""
import os
import re
import shutil
import subprocess
import tempfile

import kernpy as kp

from . import alphabet as A
from .core import Acc, Viol, digest

TLA = os.path.join(os.path.dirname(os.path.dirname(os.path.abspath(__file__))), 'tla', 'SpinePaths.tla')
_NODE = re.compile(r'^(-?\d+) \[label="((?:[^"\\]|\\.)*)"[,\]]')
_EDGE = re.compile(r'^(-?\d+) -> (-?\d+) \[label="((?:[^"\\]|\\.)*)"')
KIND_TEXT = {'n': '*', 's': '*^', 'j': '*v', 't': '*-'}


def _seq(label, name):
    m = re.search(name + r' = <<(.*?)>>', label)
    if m is None:
        raise ValueError(f'no {name} in {label!r}')
    return [x.strip().replace('\\', '').strip('"') for x in m.group(1).split(',') if x.strip()]


def tlc_graph(nspines, maxcols, timeout=3000):
    """-> (states {id: (row kinds, layout, parent)}, edges [(u, v)], init id, stats) or raises RuntimeError"""
    tlc = shutil.which('tlc')
    if tlc is None:
        raise RuntimeError('tlc is not on PATH')
    tmp = tempfile.mkdtemp(prefix='kv02tlc_')
    try:
        shutil.copy(TLA, os.path.join(tmp, 'SpinePaths.tla'))
        with open(os.path.join(tmp, 'SpinePaths.cfg'), 'w') as f:
            f.write(f'CONSTANTS NSpines = {nspines}\nMaxCols = {maxcols}\nINIT Init\nNEXT Next\nINVARIANTS TypeOK Ordered\n')
        dot = os.path.join(tmp, 'g.dot')
        env = dict(os.environ)
        env['JAVA_TOOL_OPTIONS'] = f'-Djava.io.tmpdir={tmp}'       # TLC's own scratch directories go into ours (removed below), not into /tmp
        r = subprocess.run([tlc, '-workers', '1', '-noGenerateSpecTE', '-deadlock', '-metadir', os.path.join(tmp, 'meta'),
                            '-dump', 'dot,actionlabels', dot, 'SpinePaths.tla'], cwd=tmp, capture_output=True, text=True, timeout=timeout, env=env)
        out = r.stdout + r.stderr
        if 'Model checking completed. No error has been found.' not in out:
            raise RuntimeError('TLC did not complete without error: ' + out[-600:])
        m = re.search(r'(\d+) states generated, (\d+) distinct states found', out)
        stats = {'tlc_states_generated': int(m.group(1)), 'tlc_distinct_states': int(m.group(2))}
        states, edges, init = {}, [], None
        with open(dot, encoding='utf-8') as f:
            for line in f:
                e = _EDGE.match(line)
                if e:
                    edges.append((int(e.group(1)), int(e.group(2))))
                    continue
                n = _NODE.match(line)
                if n:
                    lab = n.group(2)
                    sid = int(n.group(1))
                    states[sid] = (tuple(_seq(lab, 'row')), tuple(int(x) for x in _seq(lab, 'layout')), tuple(int(x) for x in _seq(lab, 'parent')))
                    if 'style = filled' in line:
                        init = sid
        if init is None or len(states) != stats['tlc_distinct_states']:
            raise RuntimeError(f'state graph dump incomplete: {len(states)} states parsed, TLC reports {stats["tlc_distinct_states"]}')
        return states, sorted(set(edges)), init, stats
    finally:
        shutil.rmtree(tmp, ignore_errors=True)


def witnesses(states, edges, init):
    """shortest path (list of state ids, init excluded) to every state, deterministic"""
    succ = {}
    for u, v in edges:
        succ.setdefault(u, []).append(v)
    path = {init: []}
    frontier = [init]
    while frontier:
        nxt = []
        for u in frontier:
            for v in sorted(succ.get(u, ()), key=lambda s: states[s]):
                if v not in path:
                    path[v] = path[u] + [v]
                    nxt.append(v)
        frontier = nxt
    return path


def render(headers, steps, probe_layout, seed):
    """steps: [(layout before the row, row kinds)] -> (lines, specs per row); plain rows rotate data / barline / field comment"""
    lines = ['\t'.join(headers)]
    rows = []
    for n, (lay, kinds) in enumerate(steps):
        types = [headers[s] for s in lay]
        if kinds[0] == 'd':
            flavour = (n + seed) % 4
            if flavour == 1:
                specs = [A.BAR(n * 5 + seed)] * len(kinds)
            elif flavour == 2:
                specs = [A.comment_cell(n, i, seed) for i in range(len(kinds))]
            else:
                specs = [A.data_cell(types[i], n, i, seed) for i in range(len(kinds))]
        else:
            specs = [{'n': A.NULL_I, 's': A.SPLIT, 'j': A.JOIN, 't': A.TERM}[k] for k in kinds]
        rows.append(specs)
        lines.append('\t'.join(s['src'] for s in specs))
    if probe_layout:
        n = len(steps)
        specs = [A.data_cell(headers[s], n, i, seed) for i, s in enumerate(probe_layout)]
        rows.append(specs)
        lines.append('\t'.join(s['src'] for s in specs))
    return lines, rows


def check_edge(acc, headers, steps, layout, parent, seed, cls='tlc-model-trace'):
    """import witness + edge row + probe row; compare with what the TLA+ state says.  Returns the text."""
    from .model import Model, check_tree
    lines, rows = render(headers, steps, layout, seed)
    text = '\n'.join(lines) + '\n'
    case = {'text': text, 'headers': headers, 'tlc': {'steps': [[list(l), list(k)] for l, k in steps], 'layout': list(layout), 'parent': list(parent)}, 'seed': seed}
    acc.count('transitions')
    acc.count('tlc_edges_replayed')
    try:
        doc, _errs = kp.loads(text)
    except Exception as e:  # noqa
        acc.violation(Viol(cls, 'import-raises', case, 'document', f'{type(e).__name__}: {str(e)[:120]}'))
        return text
    probs = []
    st = doc.tree.stages
    if len(st) - 1 != len(lines):
        probs.append(('stage-count', f'{len(st) - 1} stages for {len(lines)} lines'))
    else:
        for k, ln in enumerate(lines):
            cells = ln.split('\t')
            if len(st[k + 1]) != len(cells):
                probs.append(('node-count', f'line {k + 1}: {len(st[k + 1])} nodes for {len(cells)} cells'))
                break
        if not probs and layout:
            edge_stage, probe = st[-2], st[-1]
            for k, node in enumerate(probe):
                want = edge_stage[parent[k] - 1]
                if node.parent is not want:
                    probs.append(('parent', f'probe column {k}: hangs from {getattr(getattr(node.parent, "token", None), "encoding", None)!r} '
                                            f'(stage {getattr(node.parent, "stage", None)}), the model says column {parent[k] - 1} of the row above'))
                h = node.header_node
                sid = getattr(getattr(h, 'token', None), 'spine_id', None)
                enc = getattr(getattr(h, 'token', None), 'encoding', None)
                if sid != layout[k] or enc != headers[layout[k]]:
                    probs.append(('header-node', f'probe column {k}: header {enc!r}#{sid}, the model says {headers[layout[k]]}#{layout[k]}'))
            for i, node in enumerate(edge_stage):
                if getattr(node.token, 'encoding', None) != rows[-2][i]['src'] and rows[-2][i]['k'] == 'v' and rows[-2][i]['cat'] != 'BARLINES':
                    probs.append(('cell-text', f'edge row column {i}: {getattr(node.token, "encoding", None)!r} vs {rows[-2][i]["src"]!r}'))
    # the same text against the Python reference model (three-way)
    m = Model(headers)
    for r in rows:
        m.add(r)
    if tuple(m.spines()) != tuple(layout if layout else ()):
        acc.count('harness_errors')
        acc.caps.append(f'HARNESS-ERROR: the TLA+ model and kv/model.py disagree on the layout after {lines}: {layout} vs {m.spines()}')
    probs += [(s, d) for s, d in check_tree(m, doc) if s not in {p[0] for p in probs}]
    acc.outcome(tuple(p[0] for p in probs))
    for sym, detail in probs[:2]:
        acc.violation(Viol(cls, sym, case, 'tree as the TLA+ state says', detail))
    # the property's fault clause in this very state: one cell too many on the probe row must be rejected
    if layout:
        bad = '\n'.join(lines[:-1] + [lines[-1] + '\t4g']) + '\n'
        acc.count('transitions')
        acc.count('fault_rows')
        try:
            kp.loads(bad)
            acc.violation(Viol('surplus-cell', 'accepted-silently', {'text': bad, 'surplus': 'data', 'row_kind': 'd', 'live_paths': len(layout)}, 'an exception', 'a document was returned'))
        except Exception:
            pass
    return text


_G = {}


def _edge_job(job):
    key, lo, hi, seed = job
    g = _G[key]
    states, edges, path, headers = g['states'], g['edges'], g['path'], g['headers']
    acc = Acc()
    for u, v in edges[lo:hi]:
        ids = path[u] + [v]
        steps = []
        lay = g['init_layout']
        for s in ids:
            steps.append((lay, states[s][0]))
            lay = states[s][1]
        row, layout, parent = states[v]
        text = check_edge(acc, headers, steps, layout, parent, seed + len(ids))
        acc.count('evaluations')
        acc.count('traces')
        acc.state(('tlc', key, states[v]))
        if any(k in ('s', 'j', 't') for k in row):
            acc.nontriv(digest(text))
    return acc


def run_pass(ctx, configs):
    """configs: [(headers, maxcols)]"""
    out = []
    for headers, maxcols in configs:
        try:
            states, edges, init, stats = tlc_graph(len(headers), maxcols)
        except Exception as e:  # noqa  TLC is part of the harness: if it cannot run, this pass gives no verdict (the other passes still do)
            ctx.caps.append(f'pass (d) skipped for {headers} cap {maxcols}: TLC could not be run ({type(e).__name__}: {str(e)[:300]})')
            continue
        path = witnesses(states, edges, init)
        if len(path) != len(states):
            ctx.count('harness_errors')
            ctx.caps.append(f'HARNESS-ERROR: {len(states) - len(path)} states of the TLC graph are not reachable from the initial state in the dump')
            continue
        key = (tuple(headers), maxcols)
        _G[key] = {'states': states, 'edges': edges, 'path': path, 'headers': list(headers), 'init_layout': states[init][1]}
        step = max(50, len(edges) // 256)
        jobs = [(key, lo, min(lo + step, len(edges)), ctx.seed) for lo in range(0, len(edges), step)]
        ctx.pmap(_edge_job, jobs, chunksize=1)
        stats.update({'headers': list(headers), 'column_cap': maxcols, 'edges_in_dump': len(edges), 'longest_witness': max(len(p) for p in path.values()),
                      'invariants_checked_by_tlc': ['TypeOK', 'Ordered']})
        out.append(stats)
        ctx.count('tlc_states', len(states))
        del _G[key]
    ctx.extra['tlc_conformance'] = out
    return out


def replay(case):
    acc = Acc()
    t = case['tlc']
    steps = [(tuple(l), tuple(k)) for l, k in t['steps']]
    check_edge(acc, case['headers'], steps, tuple(t['layout']), tuple(t['parent']), case.get('seed', 0))
    return acc.viol
